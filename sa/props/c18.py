"""C18 Comment and whitespace rules never touch code.

Decided (structural, necessary conditions):
  C18.cover.<W>   every token-bearing AST slot is reached by the walker W (clear_comments /
                  filter_comments / clear_whitespaces)                          [T1+T2]
  C18.sibling     the walkers override the same NodeProcessor callback set       [T3]
  C18.only-trivia Token::W touches exactly leading_trivia and trailing_trivia, and its retain
                  predicate keeps every trivia kind other than the targeted one  [T5+T4]
  C18.effects     no function of the walker families assigns to, or calls a container mutator on,
                  anything but Token trivia                                       [T5]
  C18.shift       append_text_comment shifts token lines only under location=start [T6 on MIR]
  C18.closer      the long-comment closer that is emitted is the value that was tested absent from
                  the text                                                        [T7]
Not decided: regex semantics of `except`, what the appended text contains.
"""
from .. import walkers, coverage, thir, mir
from ..thir import callee_of
from ..peval import none as peval_none

TOKEN = "nodes::token::Token"
W3 = ["clear_comments", "filter_comments", "clear_whitespaces"]

STD_MUTATORS = {
    "push", "insert", "remove", "clear", "retain", "retain_mut", "take", "replace", "truncate", "pop", "drain",
    "swap", "extend", "append", "push_str", "sort", "sort_by", "sort_by_key", "dedup", "split_off", "resize",
    "swap_remove", "set", "push_front", "push_back", "pop_front", "pop_back", "entry", "get_or_insert_with",
}


def eval_bool(e, env):
    """Tiny abstract evaluator for the retain predicates: env maps a callee fname to a constant
    (here: `kind` -> TriviaKind variant).  Returns True/False/None (unknown)."""
    k = e.get("k")
    if k == "Block":
        if e["stmts"]:
            return None
        return eval_bool(e["tail"], env) if "tail" in e else None
    if k == "Logical":
        l, r = eval_bool(e["l"], env), eval_bool(e["r"], env)
        if e["op"] == "Or":
            if l is True or r is True:
                return True
            if l is False and r is False:
                return False
            return None
        if l is False or r is False:
            return False
        if l is True and r is True:
            return True
        return None
    if k == "Unary" and e["op"] == "Not":
        v = eval_bool(e["e"], env)
        return None if v is None else (not v)
    if k == "Call" and e.get("fname") in ("ne", "eq") and len(e["args"]) == 2:
        a, b = eval_val(e["args"][0], env), eval_val(e["args"][1], env)
        if a is None or b is None:
            return None
        return (a == b) if e["fname"] == "eq" else (a != b)
    if k == "Binary" and e["op"] in ("Eq", "Ne"):
        a, b = eval_val(e["l"], env), eval_val(e["r"], env)
        if a is None or b is None:
            return None
        return (a == b) if e["op"] == "Eq" else (a != b)
    if k == "Lit":
        return {"true": True, "false": False}.get(e["v"])
    if k == "Match" and len(e["arms"]) >= 1:
        # matches!(x, P) expands to match x { P => true, _ => false }
        v = eval_val(e["scrut"], env)
        if v is None:
            return None
        for a in e["arms"]:
            vs = thir.pat_variants(a["pat"])
            if any(v == x[1] for x in vs) or thir.pat_is_catchall(a["pat"]):
                if "guard" in a:
                    return None
                return eval_bool(a["body"], env)
        return None
    return None


def eval_val(e, env):
    k = e.get("k")
    while k in ("Borrow", "Deref", "Coerce", "Cast"):
        e = e["e"]
        k = e.get("k")
    if k == "Adt" and "variant" in e and not e["fields"]:
        return e["variant"]
    if k == "Call" and e.get("fname") in env:
        return env[e["fname"]]
    return None


def only_trivia(R, ctx):
    """The three token-level walkers as transfer functions on an abstract token, by finite-domain evaluation (sa/peval.py)."""
    import itertools
    import copy
    from .. import peval
    from ..peval import Enum, Struct, UNKNOWN
    rid = "C18.only-trivia"
    R.rule(rid, "Token::{clear_comments, clear_whitespaces, filter_comments}, evaluated from their typed tree on a token whose leading and "
                "trailing trivia are every sequence of up to 3 comments/whitespaces: the token's position (its code) is untouched, exactly the "
                "trivia of the addressed kind disappear (for filter_comments: exactly the comments the configured filter rejects), every other "
                "trivia survives, in its list and in order")
    lib = ctx.lib
    TRV, KIND, POS = "nodes::token::Trivia", "nodes::token::TriviaKind", "nodes::token::Position"

    def trivia(kind, tag):
        return Struct(TRV, {"position": Enum(POS, "Any", {"content": tag}), "kind": Enum(KIND, kind)})

    def tags(lst):
        return [t.fields["position"].fields.get("content") if isinstance(t, Struct) else "?" for t in lst] if isinstance(lst, list) else None
    seqs = [list(x) for k in range(0, 4) for x in itertools.product(("Comment", "Whitespace"), repeat=k)]
    for W in ("clear_comments", "clear_whitespaces", "filter_comments"):
        path = "nodes::token::Token::" + W
        fn = lib.fns.get(path)
        if not R.require(rid, "anchor:" + path, fn is not None and thir.body_of(fn), "", "function not found"):
            continue
        bad, n = [], 0
        rejected_sets = [set()] if W != "filter_comments" else [set(), {"L0", "T1"}, {"L0", "L1", "L2", "T0", "T1", "T2"}]
        for lead in seqs:
            for trail in (seqs if len(lead) <= 1 else [[], ["Comment", "Whitespace"]]):
                for rejected in rejected_sets:
                    L = [trivia(k, "L%d" % i) for i, k in enumerate(lead)]
                    T = [trivia(k, "T%d" % i) for i, k in enumerate(trail)]
                    pos = Enum(POS, "LineNumber", {"line_number": 3, "content": "code"})
                    tok = Struct(TOKEN, {"position": pos, "leading_trivia": list(L), "trailing_trivia": list(T)})
                    pos_before = copy.deepcopy(pos)

                    def hook(pe, path_, fname, args, node, rejected=rejected):
                        return NotImplemented
                    pe = peval.PEval(lib, ctx.an, hook)
                    args = [tok]
                    if W == "filter_comments":
                        # the configured filter: keeps a comment unless it is in `rejected`
                        args.append(peval.Native(lambda t, rejected=rejected: t.fields["position"].fields.get("content") not in rejected))
                    try:
                        pe.call_fn(fn, args)
                    except peval.OutOfFuel:
                        pass
                    n += 1

                    def want(lst, kinds, prefix):
                        out = []
                        for i, k in enumerate(kinds):
                            tag = "%s%d" % (prefix, i)
                            if W == "clear_comments" and k == "Comment":
                                continue
                            if W == "clear_whitespaces" and k == "Whitespace":
                                continue
                            if W == "filter_comments" and k == "Comment" and tag in rejected:
                                continue
                            out.append(tag)
                        return out
                    gl, gt = tags(tok.fields.get("leading_trivia")), tags(tok.fields.get("trailing_trivia"))
                    if gl != want(L, lead, "L") or gt != want(T, trail, "T") or tok.fields.get("position") != pos_before:
                        bad.append((lead, trail, sorted(rejected), gl, gt, tok.fields.get("position") == pos_before, pe.unknown_reasons[:1]))
        R.ob(rid, "%s|transfer" % W, not bad, ctx.where(fn),
             "all %d trivia layouts transformed as specified" % n if not bad else
             "leading %s trailing %s%s -> leading %s trailing %s, position %s %s" % (bad[0][0], bad[0][1], (" filter rejects %s" % bad[0][2]) if bad[0][2] else "", bad[0][3], bad[0][4],
                                                                                 "kept" if bad[0][5] else "CHANGED", bad[0][6] or ""))
        R.require(rid, "%s|floor" % W, n >= 30, ctx.where(fn), "%d layouts evaluated" % n)


def effects(R, ctx, fams):
    rid = "C18.effects"
    R.rule(rid, "inside the remove_comments / remove_spaces walker families nothing is assigned and no container mutator "
                "is called, except Vec::retain on a list whose static type is one of Token's trivia lists (so code tokens cannot change)")
    n_fn = 0
    token_adt = ctx.lib.adts.get("nodes::token::Token")
    trivia_vecs = {f["tys"] for v in (token_adt or {}).get("variants", []) for f in v["fields"] if f["tys"].startswith("alloc::vec::Vec<")}
    R.require(rid, "token-trivia-lists", bool(trivia_vecs), "src/nodes/token.rs", "Token's trivia list types: %s" % sorted(trivia_vecs))
    for W, fam in fams.items():
        for p in fam.scope:
            fn = ctx.lib.fns[p]
            n_fn += 1
            bad = []
            for n in thir.walk(thir.body_of(fn)):
                k = n.get("k")
                if k in ("Assign", "AssignOp"):
                    # assignments to plain locals are harmless; flag writes through fields / derefs
                    l = n["l"]
                    through = False
                    while l.get("k") in ("Deref", "Field", "Index"):
                        through = True
                        l = l["e"]
                    if through:
                        bad.append(("assign", n.get("ln")))
                elif k == "Call" and n.get("fname") in STD_MUTATORS and not callee_of(n) in ctx.lib.fns:
                    if n["fname"] in ("retain", "retain_mut") and n["args"] and "t" in n["args"][0] and \
                            ctx.lib.ty_str(ctx.lib.strip_refs(n["args"][0]["t"])) in trivia_vecs:
                        # dropping elements of a trivia list: whatever the caller, no code token can change
                        continue
                    # mutators applied to locals that do not derive from the AST are fine
                    a = ctx.an.fa(p)
                    orig = a.origins(n["args"][0]) if n["args"] else frozenset()
                    if any(o[0] != "#param" for o in orig) or any(o[0] == "#param" for o in orig):
                        bad.append((n["fname"], n.get("ln")))
            R.ob(rid, "%s|%s" % (W, p), not bad, ctx.where(fn), "mutating operations on AST-derived values: %s" % bad if bad else "no writes")
    R.meta["effects_functions"] = n_fn


def shift_only_at_start(R, ctx, rid="C18.shift"):
    R.rule(rid, "in <AppendTextComment as Rule>::process every call that shifts token lines (ShiftTokenLine) lies on paths "
                "that pass through the `AppendLocation::Start` edge of a switch on `self.location` (location=end moves no line)")
    path = "<rules::append_text_comment::AppendTextComment as rules::Rule>::process"
    cfg = mir.get_cfg(ctx.lib, path)
    if not R.require(rid, "anchor:" + path, cfg is not None, "", "function or MIR not found"):
        return
    fn = ctx.lib.fns[path]
    shifts = [(i, t) for i, t in cfg.calls() if "shift_token_line::ShiftTokenLine" in (cfg.callee(t) or "") and t.get("fname") in ("flawless_process", "process")]
    R.require(rid, "anchor:shift-call", len(shifts) >= 1, ctx.where(fn), "no ShiftTokenLine application found in AppendTextComment::process")
    region = set()
    sw = list(cfg.discr_switches("rules::append_text_comment::AppendLocation"))
    R.require(rid, "anchor:location-switch", len(sw) >= 1, ctx.where(fn), "no switch on AppendLocation found")
    for b, adt, tg, other, place, rest in sw:
        if "Start" in tg and tg["Start"] != other and list(tg.values()).count(tg["Start"]) == 1:
            region |= cfg.edge_region(b, tg["Start"])
        elif "Start" in rest and "End" in tg:
            # `match location { End => .., _ => .. }`: the otherwise edge is Start
            region |= cfg.edge_region(b, other)
    for i, t in shifts:
        R.ob(rid, "AppendTextComment::process|shift-under-Start", i in region, ctx.where(fn, t.get("ln")),
             "ShiftTokenLine is applied on a path that does not go through `location == Start` "
             "(with location=end and a multi-line text every original line moves down)")


def closer_checked(R, ctx):
    """AppendTextComment::text as a function of WHICH long-bracket closers occur in the text (finite abstraction)."""
    import itertools
    from .. import peval
    from ..peval import Enum, Struct, UNKNOWN, make
    rid = "C18.closer"
    lib = ctx.lib
    R.rule(rid, "AppendTextComment::text, evaluated from its typed tree (format! included) on a multi-line text for every subset of the closers "
                "`]]`, `]=]`, `]==]`, `]===]` occurring in it (the function depends on the text only through such `contains` queries): the "
                "comment written is `--[=*[`, the text, and a closer of the SAME level that does not occur in the text -- so the text cannot "
                "terminate the comment early; a single-line text is written after `--`, an empty text gives nothing")
    ATC = "rules::append_text_comment::AppendTextComment"
    fn = lib.fns.get(ATC + "::text")
    TC = ATC.rsplit("::", 1)[0] + "::TextContent"
    if not R.require(rid, "anchor:" + ATC + "::text", fn is not None and TC in lib.adts and ATC in lib.adts, "", "function / TextContent not found"):
        return
    content_field = [f["name"] for v in lib.adts[ATC]["variants"] for f in v["fields"] if TC in f.get("tys", "")]
    if not R.require(rid, "anchor:text_content-field", len(content_field) == 1, ctx.adt_where(ATC), "field of type TextContent: %s" % content_field):
        return

    def run_(content):
        def hook(pe, path, fname, args, node):
            if fname in ("get_or_init", "get_or_insert_with", "get_or_try_init") and len(args) == 2:
                return pe.apply(args[1], [], 0)
            return NotImplemented
        pe = peval.PEval(lib, ctx.an, hook)
        rule = make(lib, ATC, {content_field[0]: Enum(TC, "Value", {"0": content})})
        try:
            v = pe.call_fn(fn, [rule, "project"])
        except peval.OutOfFuel:
            return UNKNOWN, ["no termination"]
        if isinstance(v, Enum) and v.variant == "Ok":
            return v.fields.get("0"), pe.unknown_reasons
        return UNKNOWN, pe.unknown_reasons

    def closer(k):
        return "]" + "=" * k + "]"
    bad, n = [], 0
    for k in range(0, 5):
        for L in itertools.combinations(range(4), k):
            content = "first line\n" + "".join("x" + closer(l) for l in L) + "x"
            out, why = run_(content)
            n += 1
            if not isinstance(out, str):
                bad.append(("closers %s present" % [closer(l) for l in L], "comment not established %s" % why[:2]))
                continue
            m = None
            for lvl in range(0, 8):
                if out.startswith("--[" + "=" * lvl + "["):
                    m = lvl
                    break
            if m is None or not out.endswith(closer(m)) or content not in out[len("--[" + "=" * m + "["):len(out) - len(closer(m))]:
                bad.append(("closers %s present" % [closer(l) for l in L], "comment written is %r: opener / closer / text do not line up" % out[:60]))
            elif closer(m) in content:
                bad.append(("closers %s present" % [closer(l) for l in L], "closer %s of the comment occurs inside the text: the comment ends early and the rest of the text becomes code" % closer(m)))
    R.ob(rid, "text|break-value-tested", not bad, ctx.where(fn), "for all %d closer subsets the emitted closer is absent from the text and matches the opener" % n if not bad else "%s: %s" % bad[0])
    R.require(rid, "floor:subsets", n >= 16, ctx.where(fn), "%d subsets" % n)
    for label, content, want in (("single-line", "note ]] here", "--note ]] here"), ("empty", "", "")):
        out, why = run_(content)
        R.ob(rid, "text|%s" % label, out == want, ctx.where(fn), "%r -> %r (expected %r) %s" % (content, out, want, why[:1] if out != want else ""))
    # a one-line text must stay a LINE comment whatever it starts with (Lua manual 2.1: `--[`, n `=`, `[` opens a long comment)
    from ..props.c04 import _is_line_comment
    wrong = []
    for content in ("[[ generated ]] do not edit [[", "[[x", "[=[x", "[==[ x", "[x", "[=x[", "x [[", "]] x", "=[[x"):
        out, why = run_(content)
        if not isinstance(out, str) or not out.startswith("--") or "\n" in out or not _is_line_comment(out) or content not in out:
            wrong.append((content, out if isinstance(out, str) else why[:2]))
    R.ob(rid, "text|one-line-text-stays-a-line-comment", not wrong, ctx.where(fn), "9 one-line texts, all written as line comments" if not wrong else
         "the one-line text %r is written as %r: it opens a long comment that nothing closes, the code after it is swallowed" % wrong[0])


def line_comment_classifier(R, ctx):
    """The generator's line-comment / long-comment classifier on the (bounded) grammar of comment openers."""
    from .. import peval
    rid = "C18.linecomment"
    lib = ctx.lib
    R.rule(rid, "token_based::is_single_line_comment, evaluated from its typed tree on the grammar of comment openers (Lua manual 2.1: a long "
                "comment opens with `--[`, n `=` signs and a second `[`), n bounded at 6: `--[=*[..` is a long comment for every level 0..6 "
                "and nothing else is -- `--x`, `--[`, `--[==`, `--[=x[`, `--[a[ note`, `--[ [` are line comments. A line comment taken for a "
                "long one gets no line break after it and swallows the next token; a long comment taken for a line comment is glued to a "
                "preceding line comment and its body becomes code")
    fn = lib.fn("generator::token_based::is_single_line_comment")
    if not R.require(rid, "anchor", fn is not None, "", "is_single_line_comment not found"):
        return
    cases = []
    for k in range(0, 7):
        cases.append(("--[" + "=" * k + "[ text ]" + "=" * k + "]", False, "long comment of level %d" % k))
        cases.append(("--[" + "=" * k + "[", False, "long comment opener of level %d at end of text" % k))
        cases.append(("--[" + "=" * k, True, "`--[` and %d `=` without a second `[`" % k))
        cases.append(("--[" + "=" * k + "x[ text", True, "level %d interrupted by another character before the second `[`" % k))
    cases += [("-- text", True, "plain line comment"), ("--", True, "empty line comment"), ("--[a[ note", True, "`--[a[`"), ("--[ [ note", True, "`--[ [`"),
              ("--]]", True, "`--]]`"), ("--x[[", True, "`--x[[`")]
    bad, unk = [], []
    for text, want, what in cases:
        pe = peval.PEval(lib, ctx.an)
        try:
            v = pe.call_fn(fn, [text])
        except peval.OutOfFuel:
            v = peval.UNKNOWN
        if not isinstance(v, bool):
            unk.append((what, pe.unknown_reasons[:1]))
        elif v is not want:
            bad.append("%s (`%s`) is classified as a %s comment" % (what, text[:16], "line" if v else "long"))
    R.ob(rid, "classifier|table-established", not unk, ctx.where(fn), "all %d opener shapes evaluate to a boolean" % len(cases) if not unk else "not established: %s %s" % unk[0])
    R.ob(rid, "classifier|openers", not bad, ctx.where(fn), "every opener shape is classified as the Lua lexer reads it" if not bad else "; ".join(bad[:3]))


def braces_kept_apart(R, ctx):
    """An interpolated value that starts with a table: `{` `{` must never become the escape `{{` (remove_spaces relies on the generator)."""
    import itertools
    from .. import peval
    from ..peval import make, Enum, some
    from . import c13
    rid = "C18.braces"
    lib = ctx.lib
    R.rule(rid, "each generator, evaluated from its typed tree on an interpolated string whose value segment starts with a table constructor, "
                "for every combination of trivia on the segment's `{` (nothing / space / comment after it) and on the table's `{` (nothing / "
                "empty whitespace / space / comment before it) x (nothing / space / comment after it): the text written never contains `{{` "
                "(Luau reads `{{` inside a backtick string as an escaped brace, so the value would become text)")
    N, T = "nodes::", "nodes::token::"
    IS = N + "expressions::interpolated_string::"
    need = [T + "Token", T + "Trivia", IS + "ValueSegment", IS + "ValueSegmentTokens", IS + "InterpolatedStringTokens", N + "expressions::table::TableTokens"]
    if not R.require(rid, "anchor:node-types", all(a in lib.adts for a in need), "", "token / segment node types not found"):
        return

    def trivia(text, kind):
        return make(lib, T + "Trivia", {"position": Enum(T + "Position", "Any", {"content": text}), "kind": Enum(T + "TriviaKind", kind, {})})

    def tok(text, lead=(), trail=()):
        return make(lib, T + "Token", {"position": Enum(T + "Position", "Any", {"content": text}), "leading_trivia": list(lead), "trailing_trivia": list(trail)})
    LEAD = {"none": (), "empty": (("", "Whitespace"),), "space": ((" ", "Whitespace"),), "comment": (("--[[c]]", "Comment"),)}
    TRAIL = {"none": (), "space": ((" ", "Whitespace"),), "comment": (("--[[c]]", "Comment"),)}
    n_gen = 0
    for G, new, nargs in c13.generators(ctx):
        we, fin = c13.trait_fn(lib, G, "write_expression"), c13.trait_fn(lib, G, "into_string")
        if we is None or fin is None:
            continue
        n_gen += 1
        bad, n = [], 0
        for (ln, lead), (tn, trail), (sn, seg) in itertools.product(LEAD.items(), TRAIL.items(), TRAIL.items()):
            table = make(lib, N + "expressions::table::TableExpression", {"entries": [], "tokens": some(make(lib, N + "expressions::table::TableTokens", {
                "opening_brace": tok("{", [trivia(*t) for t in lead], [trivia(*t) for t in trail]), "closing_brace": tok("}"), "separators": []}))})
            vs = make(lib, IS + "ValueSegment", {"value": Enum(c13.EXPR, "Table", {"0": table}), "tokens": some(make(lib, IS + "ValueSegmentTokens", {
                "opening_brace": tok("{", (), [trivia(*t) for t in seg]), "closing_brace": tok("}")}))})
            node = Enum(c13.EXPR, "InterpolatedString", {"0": make(lib, IS + "InterpolatedStringExpression", {
                "segments": [Enum(IS + "InterpolationSegment", "Value", {"0": vs})],
                "tokens": some(make(lib, IS + "InterpolatedStringTokens", {"opening_tick": tok("`"), "closing_tick": tok("`")}))})})
            pe = peval.PEval(lib, ctx.an)
            try:
                gen = pe.call_fn(new, list(nargs))
                pe.call_fn(we, [gen, node])
                text = pe.call_fn(fin, [gen])
            except peval.OutOfFuel:
                text = None
            n += 1
            if not isinstance(text, str) or "{{" in text or "{" not in text:
                bad.append(("segment `{` followed by %s, table `{` preceded by %s and followed by %s" % (sn, ln, tn), text if isinstance(text, str) else pe.unknown_reasons[:2]))
        R.ob(rid, "%s|no-double-brace" % G.split("::")[-1], not bad, ctx.where(we), "%d trivia layouts keep the braces apart" % n if not bad else "%s: written %r" % bad[0])
    R.require(rid, "floor:generators", n_gen >= 3, "", "%d generators evaluated" % n_gen)


def comment_after_minus(R, ctx):
    """A comment kept next to a `-` must not absorb it: `a - --[[c]] b` without spaces is `a---[[c]]b`, a line comment that swallows `b`."""
    import itertools
    from .. import peval
    from ..peval import make, Enum, some, NONE
    from . import c13
    rid = "C18.comment-glue"
    lib = ctx.lib
    R.rule(rid, "each generator that writes trivia, evaluated from its typed tree on `a - b` and `- b` whose `-` token is followed by "
                "(nothing / a space) and whose right operand carries (a long comment / a line comment + newline / a space and a comment) "
                "before it: in the text written, the character before the comment is never `-` (otherwise the operator becomes part of a "
                "`---...` line comment and everything up to the end of the line is lost)")
    N, T = "nodes::", "nodes::token::"
    BIN, UN, ID = N + "expressions::binary::BinaryExpression", N + "expressions::unary::UnaryExpression", N + "identifier::Identifier"
    if not R.require(rid, "anchor:node-types", all(a in lib.adts for a in (BIN, UN, ID, T + "Token")), "", "node types not found"):
        return

    def trivia(text, kind):
        return make(lib, T + "Trivia", {"position": Enum(T + "Position", "Any", {"content": text}), "kind": Enum(T + "TriviaKind", kind, {})})

    def tok(text, lead=(), trail=()):
        return make(lib, T + "Token", {"position": Enum(T + "Position", "Any", {"content": text}), "leading_trivia": list(lead), "trailing_trivia": list(trail)})

    def ident(name, lead=()):
        return Enum(c13.EXPR, "Identifier", {"0": make(lib, ID, {"name": name, "token": some(tok(name, lead))})})
    AFTER_OP = {"none": (), "space": ((" ", "Whitespace"),)}
    BEFORE = {"long": (("--[[c]]", "Comment"),), "line": (("--c", "Comment"), ("\n", "Whitespace")), "space+long": ((" ", "Whitespace"), ("--[[c]]", "Comment"))}
    n_gen = 0
    for G, new, nargs in c13.generators(ctx):
        we, fin = c13.trait_fn(lib, G, "write_expression"), c13.trait_fn(lib, G, "into_string")
        if we is None or fin is None:
            continue
        bad, n, wrote_comment = [], 0, False
        for (an, after), (bn, before), form in itertools.product(AFTER_OP.items(), BEFORE.items(), ("binary", "unary")):
            right = ident("b", [trivia(*t) for t in before])
            optok = some(tok("-", (), [trivia(*t) for t in after]))
            if form == "binary":
                node = Enum(c13.EXPR, "Binary", {"0": make(lib, BIN, {"operator": Enum(N + "expressions::binary::BinaryOperator", "Minus", {}), "left": ident("a"), "right": right, "token": optok})})
            else:
                node = Enum(c13.EXPR, "Unary", {"0": make(lib, UN, {"operator": Enum(N + "expressions::unary::UnaryOperator", "Minus", {}), "expression": right, "token": optok})})
            pe = peval.PEval(lib, ctx.an)
            try:
                gen = pe.call_fn(new, list(nargs))
                pe.call_fn(we, [gen, node])
                text = pe.call_fn(fin, [gen])
            except peval.OutOfFuel:
                text = None
            n += 1
            if not isinstance(text, str):
                bad.append(("%s, `-` followed by %s, operand preceded by %s" % (form, an, bn), pe.unknown_reasons[:2]))
                continue
            i = text.find("--c") if bn == "line" else text.find("--[[c]]")
            if i < 0:
                continue        # this generator does not write comments
            wrote_comment = True
            if i > 0 and text[i - 1] == "-":
                bad.append(("%s, `-` followed by %s, operand preceded by %s" % (form, an, bn), text))
        if wrote_comment or bad:
            n_gen += 1
            R.ob(rid, "%s|minus-stays-an-operator" % G.split("::")[-1], not bad, ctx.where(we), "%d layouts: the comment never starts right after `-`" % n if not bad else "%s: written %r" % bad[0])
    R.require(rid, "floor:generators", n_gen >= 1, "", "%d trivia-writing generators evaluated" % n_gen)


def patterns_compiled_separately(R, ctx):
    """A comment is kept when ONE of the configured patterns matches it: each pattern must keep its own flags and groups."""
    rid = "C18.patterns"
    lib = ctx.lib
    R.rule(rid, "provenance rule on every `Regex::new` in the rules: the text compiled is one configured pattern as given (a parameter, a "
                "property value, an element of the configured list) -- never the product of join / concat / format! / push_str / collect or of "
                "another regex's source: merged into one alternation, an inline flag such as `(?i)` or `(?m)` of one pattern applies to all "
                "patterns after it and equal group names collide, so comments nobody configured would be kept (or the rule would panic)")
    BUILD = {"join", "concat", "format", "push_str", "push", "extend", "collect", "from_iter", "as_str", "repeat", "insert_str", "replace"}
    n = 0
    for f in lib.fn_list:
        b = thir.body_of(f)
        if not b or "::test" in f["path"] or not (f["path"].startswith("rules::") or f["path"].startswith("<rules::")):
            continue
        fa = None
        for c in thir.walk(b):
            if c.get("k") == "Call" and c.get("fname") == "new" and (callee_of(c) or c.get("fn") or "").startswith("regex::") and c["args"]:
                fa = fa or ctx.an.fa(f["path"])
                via = sorted({y.get("fname") for y in fa.source_calls(c["args"][0]) if y.get("fname") in BUILD and
                              (y.get("fname") != "as_str" or "regex::" in (callee_of(y) or y.get("fn") or ""))})
                n += 1
                R.ob(rid, "%s|pattern-as-configured" % f["path"].split("::<")[0][-60:], not via, ctx.where(f, c.get("ln")),
                     "compiled from one configured pattern" if not via else "the compiled text is assembled with %s: patterns are merged before compilation" % via)
    R.require(rid, "floor:compilations", n >= 1, "", "%d Regex::new calls in the rules (positive control)" % n)


def pending_comment_respected(R, ctx):
    """Whoever appends text to the line-keeping generator's buffer must first ask whether a line comment is still open."""
    rid = "C18.pending-comment"
    lib = ctx.lib
    G = "generator::token_based::TokenBasedLuaGenerator"
    R.rule(rid, "who-may-write rule in the line-keeping generator: every function that appends to the output (through the counting "
                "primitive or directly) consults the pending-line-comment flag (the generator's bool field) or the helper that closes the "
                "comment, in the same function: text appended blindly after a kept `-- comment` becomes part of the comment")
    a = lib.adts.get(G)
    if not R.require(rid, "anchor:generator", a is not None, "", "generator not found"):
        return
    flags = [f["name"] for f in a["variants"][0]["fields"] if f["tys"] == "bool"]
    bufs = [f["name"] for f in a["variants"][0]["fields"] if f["tys"] == "alloc::string::String"]
    if not R.require(rid, "anchor:fields", len(flags) == 1 and len(bufs) == 1, ctx.adt_where(G), "bool fields %s, String fields %s" % (flags, bufs)):
        return
    methods = [f for f in lib.fn_list if thir.body_of(f) and (f["path"].startswith(G + "::") or f["path"].startswith("<" + G)) and "::test" not in f["path"]]
    # the counting primitive: the method that appends its argument to the buffer
    prims = set()
    for f in methods:
        fa = ctx.an.fa(f["path"])
        for c in thir.calls(f):
            if c.get("fname") == "push_str" and callee_of(c) not in lib.fns and c["args"] and any(o == (G, bufs[0]) for o in fa.origins(c["args"][0])) \
                    and len(c["args"]) > 1 and any(o[0] == "#param" for o in fa.origins(c["args"][1])):
                prims.add(f["path"])
    R.require(rid, "anchor:primitive", len(prims) >= 1, "", "counting primitive(s): %s" % sorted(p.split("::")[-1] for p in prims))
    closers = {f["path"] for f in methods if any(n.get("k") in ("Assign",) and n["l"].get("k") == "Field" and n["l"].get("f") == flags[0] and n["r"].get("v") == "false" for n in thir.walk(thir.body_of(f)))}
    n = 0
    for f in methods:
        if f["path"] in prims:
            continue
        fa = ctx.an.fa(f["path"])
        writes = []
        for c in thir.calls(f):
            cal = callee_of(c) or ""
            if cal in prims:
                writes.append(c)
            elif c.get("fname") in ("push_str", "push") and cal not in lib.fns and c["args"] and any(o == (G, bufs[0]) for o in fa.origins(c["args"][0])):
                lit = c["args"][1] if len(c["args"]) > 1 else {}
                if c.get("fname") == "push" and lit.get("k") == "Lit" and lit.get("v") in ("' '", "'\\n'"):
                    continue        # separators and the line padding
                writes.append(c)
        if not writes:
            continue
        n += 1
        asks = any(x.get("k") == "Field" and x.get("f") == flags[0] and x.get("adt") == G for x in thir.walk(thir.body_of(f))) or \
            any((callee_of(c) or "") in closers for c in thir.calls(f))
        R.ob(rid, "%s|asks-before-writing" % f["path"].split("::")[-1], asks, ctx.where(f, writes[0].get("ln")),
             "consults the pending-comment flag" if asks else "appends text without looking at the pending line comment: after `-- c` the text joins the comment")
    R.require(rid, "floor:writers", n >= 3, "", "%d writing functions" % n)


def last_token_is_last_written(R, ctx, rid="C18.last-token"):
    """append_text_comment (location end) hangs its comment on the token Block hands out as the last one: that token must be the last
    one the generator writes, or the comment lands in the middle of the statement and pushes the rest of it one line down."""
    from .. import peval, astmodel
    from ..peval import make, Enum, some, NONE, deref
    from . import c13
    lib = ctx.lib
    R.rule(rid, "the Block method whose token append_text_comment decorates for location `end` (found from the rule's own calls: a Block "
                "method returning `&mut Token`, told apart from the first-token one by evaluation on `local b = c return a`), evaluated "
                "on blocks ending in return / break / local assignment / typed local without value / type declaration, each with and "
                "without a `;` after it, on mixed `;` lists and on the empty block: a comment pushed on the token returned is, in the "
                "text every trivia-writing generator produces from the same tree, after every code token (only whitespace follows it)")
    B = astmodel.Builder(lib)
    N, T = "nodes::", "nodes::token::"
    def one(sfx):
        c = [a for a in lib.adts if a.endswith(sfx)]
        return c[0] if len(c) == 1 else None
    BT, TN, TYPE = one("block::BlockTokens"), one("types::type_name::TypeName"), one("nodes::types::Type")
    TD, TDT, LAT = one("type_declaration::TypeDeclarationStatement"), one("type_declaration::TypeDeclarationTokens"), one("local_assign::VariableAssignmentTokens")
    if not R.require(rid, "anchor:node-types", not B.missing and all((BT, TN, TYPE, TD, TDT, LAT)), "", "node types not found"):
        return
    cands = {}
    for g in lib.fn_list:
        if g.get("file", "").endswith("append_text_comment.rs") and "::test" not in g["path"]:
            for c in thir.calls(g):
                f = lib.fn(callee_of(c) or "")
                if f is not None and f.get("self_tys") == B.BLOCK and len(f["thir"].get("params", [])) == 1 and thir.body_of(f) and \
                        lib.ty_str(c.get("t")).replace(" ", "") in ("&mut" + T + "Token", "&mutnodes::token::Token"):
                    cands[f["path"]] = f
    if not R.require(rid, "anchor:block-token-fns", len(cands) >= 1, "", "Block methods returning &mut Token called by append_text_comment: %s" % sorted(cands)):
        return

    def tok(text):
        return make(lib, T + "Token", {"position": Enum(T + "Position", "Any", {"content": text}), "leading_trivia": [], "trailing_trivia": []})

    def ident(n):
        return B.mk(B.IDENT, name=n, token=some(tok(n)))

    def var(n):
        return Enum(B.EXPR, "Identifier", {"0": ident(n)})

    def tname(n):
        return Enum(TYPE, "Name", {"0": make(lib, TN, {"type_name": ident(n), "type_parameters": NONE})})

    def ret():
        return Enum(B.LAST, "Return", {"0": B.mk(B.RETURN, expressions=[var("a")], tokens=NONE)})

    def brk():
        return Enum(B.LAST, "Break", {"0": some(tok("break"))})

    def local(name, value=None, ty=None):
        t = B.mk(B.TYPED, name=ident(name), token=some(tok(":")) if ty else NONE)
        t.fields["type"] = some(tname(ty)) if ty else peval_none()
        toks = make(lib, LAT, {"equal": some(tok("=")) if value else NONE, "variable_commas": [], "value_commas": []})
        for k, v in list(toks.fields.items()):
            if isinstance(v, peval.Struct) and v.adt == T + "Token":
                toks.fields[k] = tok("local")
        node = B.mk(B.LOCAL, variables=[t], values=[var(value)] if value else [], tokens=some(toks))
        for f in lib.adts[B.LOCAL]["variants"][0]["fields"]:       # the kind of assignment (a unit enum): the first one, `local`
            e = lib.adts.get(f.get("tys", ""))
            if e is not None and e.get("kind") == "enum" and all(not v["fields"] for v in e["variants"]):
                node.fields[f["name"]] = Enum(f["tys"], e["variants"][0]["name"], {})
        return B.stmt("LocalAssign", node)

    def typedecl():
        toks = make(lib, TDT, {"equal": tok("="), "export": NONE})
        toks.fields["type"] = tok("type")
        node = make(lib, TD, {"name": ident("A"), "exported": False, "generic_parameters": NONE, "tokens": some(toks)})
        node.fields["type"] = tname("number")
        return B.stmt("TypeDeclaration", node)

    def block(stmts, last, semis, last_semi):
        b = B.block(stmts, last)
        b.fields["tokens"] = some(make(lib, BT, {"semicolons": [some(tok(";")) if x else NONE for x in semis],
                                                 "last_semicolon": some(tok(";")) if last_semi else NONE, "final_token": NONE}))
        return b
    shapes = [("local b = c return a  (base)", lambda: block([local("b", "c")], ret(), [False], False))]
    for semi in (False, True):
        sfx = ";" if semi else ""
        shapes += [
            ("return a" + sfx, lambda semi=semi: block([], ret(), [], semi)),
            ("break" + sfx, lambda semi=semi: block([], brk(), [], semi)),
            ("local b = c%s return a" % sfx, lambda semi=semi: block([local("b", "c")], ret(), [semi], False)),
            ("local b = c return a" + sfx, lambda semi=semi: block([local("b", "c")], ret(), [False], semi)),
            ("local b = c" + sfx, lambda semi=semi: block([local("b", "c")], None, [semi], False)),
            ("local b: T" + sfx, lambda semi=semi: block([local("b", None, "T")], None, [semi], False)),
            ("local b: T = c" + sfx, lambda semi=semi: block([local("b", "c", "T")], None, [semi], False)),
            ("type A = number" + sfx, lambda semi=semi: block([typedecl()], None, [semi], False)),
            ("local b = c; type A = number" + sfx, lambda semi=semi: block([local("b", "c"), typedecl()], None, [True, semi], False)),
            ("local b = c%s local d = e" % sfx, lambda semi=semi: block([local("b", "c"), local("d", "e")], None, [semi, False], False)),
        ]
    shapes.append(("(empty block)", lambda: B.block()))
    shapes.append(("local b = c  (no block tokens)", lambda: B.block([local("b", "c")])))
    shapes.append(("local b: T  (no block tokens)", lambda: B.block([local("b", None, "T")])))
    gens = []
    for G, new, nargs in c13.generators(ctx):
        wb, fin = c13.trait_fn(lib, G, "write_block"), c13.trait_fn(lib, G, "into_string")
        if wb is not None and fin is not None:
            gens.append((G, new, nargs, wb, fin))

    def written(b):
        out = {}
        for G, new, nargs, wb, fin in gens:
            pe = peval.PEval(lib, ctx.an, fuel=2000000, max_depth=60)
            try:
                g = pe.call_fn(new, list(nargs))
                pe.call_fn(wb, [g, b])
                text = pe.call_fn(fin, [g])
            except peval.OutOfFuel:
                text = None
            out[G] = text if isinstance(text, str) else ("?", pe.unknown_reasons[:2])
        return out

    def run_shape(fn, mk):
        b = mk()
        pe = peval.PEval(lib, ctx.an, fuel=2000000, max_depth=60)
        try:
            r = deref(pe.call_fn(fn, [b]))
        except peval.OutOfFuel:
            r = None
        if not isinstance(r, peval.Struct) or r.adt != T + "Token":
            return None, "the token returned could not be established: %s" % (pe.unknown_reasons[:2],)
        r.fields.setdefault("trailing_trivia", [])
        r.fields["trailing_trivia"].append(make(lib, T + "Trivia", {"position": Enum(T + "Position", "Any", {"content": "--MARK"}), "kind": Enum(T + "TriviaKind", "Comment", {})}))
        res = written(b)
        seen = False
        for G, text in res.items():
            if not isinstance(text, str):
                return None, "%s: text not established %s" % (G.split("::")[-1], text[1])
            if "--MARK" not in text:
                continue            # this generator does not write trivia
            seen = True
            if text.count("--MARK") != 1 or not text.rstrip().endswith("--MARK"):
                return False, "%s writes %r: code follows the comment" % (G.split("::")[-1], text)
        if not seen:
            return False, "no generator writes the comment pushed on the token returned (%r): it hangs on a token that is never written" % (res,)
        return True, ""
    lasts = [f for f in cands.values() if run_shape(f, shapes[0][1])[0] is True]
    if not R.require(rid, "anchor:last-token-fn", len(lasts) == 1, ctx.where(next(iter(cands.values()))),
                     "of %s, the ones whose token is written last on `local b = c return a`: %s" % (sorted(cands), [f["path"] for f in lasts])):
        return
    fn = lasts[0]
    n = 0
    for name, mk in shapes[1:]:
        ok, why = run_shape(fn, mk)
        n += 1
        R.ob(rid, "%s" % name, ok is True, ctx.where(fn), "the token returned is the last one written" if ok else why)
    R.require(rid, "floor:shapes", n >= 20, "", "%d block tails evaluated" % n)


def run(R, ctx):
    R.explanation = (
        "Static coverage proof over the AST type graph (derived from the ADT facts): every slot that can hold a Token is "
        "reached by each comment/whitespace walker; plus an effect whitelist (only Token trivia is ever mutated), the "
        "retain predicates evaluated on every TriviaKind, and a MIR path rule for append_text_comment's line shift. "
        "Decides the wiring, not the regex or text content semantics. Decision / transfer functions among these are decided by finite-domain evaluation of their typed tree (sa/peval.py): every point of a small abstract domain is evaluated and compared with the reference; nothing is sampled and no program input exists."
    )
    R.assumptions += [
        "coverage is decided per (ADT, slot) over the whole walker family (not path-sensitive)",
        "rustc's type information (THIR) is the source of resolved callees and field projections",
        "std container methods are classified as mutators by name (list in c18.STD_MUTATORS)",
    ]
    fams = {}
    for W in W3:
        fam, touched, slots = walkers.walker_cover(R, ctx, "C18.cover." + W, W)
        fams[W] = fam
    walkers.sibling_callbacks(R, ctx, "C18.sibling", list(walkers.WALKERS))
    only_trivia(R, ctx)
    effects(R, ctx, fams)
    shift_only_at_start(R, ctx)
    # the header's line shift reaches each token once: a token shifted twice is written below where the generator stands, and the
    # missing line breaks are pushed in front of it -- inside a string for the braces of an interpolated value (as C04.once)
    walkers.double_application(R, ctx, "C18.shift-once", "shift_token_line")
    closer_checked(R, ctx)
    line_comment_classifier(R, ctx)
    patterns_compiled_separately(R, ctx)
    pending_comment_respected(R, ctx)
    braces_kept_apart(R, ctx)
    comment_after_minus(R, ctx)
    last_token_is_last_written(R, ctx)

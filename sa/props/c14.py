"""C14 Data files convert to Lua values equal to the data (small structural part).

Decided:
  C14.ident   wherever a table key / field name is built from a run-time string (data serializer,
              TableEntry::from_string_key_and_value, convert_index_to_field, roblox property style),
              the `name = ` / `.name` form is chosen only under is_valid_identifier of that very
              string; every other key takes the `["key"] = ` / `["key"]` form                    [T7]
  C14.keyword is_valid_identifier rejects the 21 reserved words, the empty string and a leading
              digit (so reserved words are never emitted as bare keys)                           [T4]
  C14.total   the serde Serializer maps every data kind it accepts to an expression: no serialize_*
              method of the data serializer silently drops its value (each returns through
              process_expression / an explicit error)                                             [T3]
Not decided: number/string literal text (C13), null handling inside arrays, YAML/TOML specifics.
"""
from .. import thir, guards, interproc
from ..thir import callee_of
from . import c09

CTORS = {
    "nodes::expressions::table::TableFieldEntry::new": 0,
    "nodes::expressions::field::FieldExpression::new": 1,
    "nodes::identifier::Identifier::new": 0,
}
SITES = [
    "process::expression_serializer::Serializer::complete_table_entry",
    "nodes::expressions::table::TableEntry::from_string_key_and_value",
    "rules::convert_index_to_field::Converter::convert_index_to_field",
    "<rules::convert_index_to_field::Converter as process::node_processor::NodeProcessor>::process_table_expression",
    "rules::convert_require::roblox_index_style::RobloxIndexStyle::index",
]
IVI = guards.is_call_named("is_valid_identifier")


def ident(R, ctx):
    rid = "C14.ident"
    lib = ctx.lib
    M = guards.Mentions(ctx.an)
    R.rule(rid, "in the functions that turn a run-time string into a field/key name, each TableFieldEntry::new / FieldExpression::new / Identifier::new "
                "whose name argument is a non-literal string is control-dependent on is_valid_identifier of that value (if-branch, `.filter(is_valid_identifier)` "
                "in its source chain, or a helper that returns the string only when valid); the fallback builds the bracketed string-key form")
    n = 0
    for path in SITES:
        fn = lib.fn(path)
        if not R.require(rid, "anchor:" + path.split("::")[-1], fn is not None, "", "%s not found" % path):
            continue
        short = "%s::%s" % (path.split("::")[-2].rstrip(">"), path.split("::")[-1])
        k = 0
        # the function and the private helpers of the same file it calls (the construction may be extracted)
        for f2, c in interproc.scope_calls(lib, fn):
            fa = ctx.an.fa(f2["path"])
            if fa is None or c.get("fn") not in CTORS:
                continue
            a = c["args"][CTORS[c["fn"]]]
            ts = lib.ty_str(lib.strip_refs(a["t"]))
            if not any(x.get("k") == "Var" for x in thir.walk(a)):
                continue
            if "Identifier" in ts and "identifier::Identifier" in ts:
                # an Identifier built just above from the checked string is covered by that construction
                continue
            k += 1
            n += 1
            by_branch = any(kd == "then" and cond.get("k") != "Unary" and M.mentions(fa, cond, IVI, 0) for cond, kd in guards.conditions_of(fa, c))
            by_chain = any(y.get("fname") == "filter" and any(IVI(z) for cl in y["args"] if cl.get("k") == "Closure" for z in thir.walk(cl["body"]["body"]))
                           for y in ctx.an.deep_source_calls(fa, a))
            # ... or the string comes out of a local helper that tests it on every path that hands it on: an `if`, a match guard
            # (`Ok(key) if is_valid_identifier(&key) => Some(key)`) or a filter inside that helper
            def helper_checks(q):
                for x in thir.walk(thir.body_of(q)):
                    if x.get("k") == "If" and any(IVI(z) for z in thir.walk(x.get("cond", {}))):
                        return True
                    if x.get("k") == "Match" and any("guard" in arm and any(IVI(z) for z in thir.walk(arm["guard"])) for arm in x["arms"]):
                        return True
                    if x.get("k") == "Call" and x.get("fname") in ("filter", "take_if", "then_some", "then") and any(IVI(z) for z in thir.walk(x)):
                        return True
                return False
            by_helper = False
            for y in ctx.an.deep_source_calls(fa, a):
                q = lib.fn(callee_of(y) or "")
                if q is not None and thir.body_of(q) and "String" in lib.ty_str(y["t"]) and helper_checks(q):
                    by_helper = True
            ok = by_branch or by_chain or by_helper
            R.ob(rid, "%s|%s@%d" % (short, c["fn"].split("::")[-2], k), ok, ctx.where(f2, c.get("ln")),
                 "name built from a run-time string %s" % ("under is_valid_identifier" if ok else "WITHOUT is_valid_identifier: a key such as `end`, `1a` or `a-b` is emitted as a bare name (invalid Lua or another key)"))
        R.require(rid, "%s|floor" % short, k >= 1, ctx.where(fn), "%d guarded constructions in this function" % k)
    R.require(rid, "floor", n >= 3, "", "%d constructions checked (floor 3)" % n)
    # the fallback exists in the data serializer: TableIndexEntry with the string
    fn = lib.fn(SITES[0])
    if fn is not None:
        ok = any(c.get("fname") == "new" and "TableIndexEntry" in (c.get("fn") or "") for f2, c in interproc.scope_calls(lib, fn))
        R.ob(rid, "complete_table_entry|bracket-fallback", ok, ctx.where(fn), "non-identifier keys become TableIndexEntry (`[\"key\"] = v`): %s" % ok)


def keyword(R, ctx, rid="C14.keyword"):
    """is_valid_identifier on the finite tables that define a Lua name: reserved words and character classes."""
    from .. import peval
    lib = ctx.lib
    R.rule(rid, "is_valid_identifier, evaluated from its typed tree: false for each of the 21 Lua reserved words and for the empty string; for "
                "every ASCII character c, a one-character name `c` is refused unless c is a letter or `_`, and `a`+c is refused unless c is a "
                "letter, digit or `_`; a non-ASCII letter is refused (Lua 5.1 / Luau names are ASCII). One-sided: refusing more only quotes "
                "more keys")
    fn = lib.fn("process::utils::is_valid_identifier")
    if not R.require(rid, "anchor", fn is not None, "", "not found"):
        return

    def ev(sv):
        pe = peval.PEval(lib, ctx.an)
        try:
            return pe.call_fn(fn, [sv]), pe.unknown_reasons
        except peval.OutOfFuel:
            return peval.UNKNOWN, ["no termination"]
    for k in c09.LUA_KEYWORDS:
        v, why = ev(k)
        R.ob(rid, "keyword|" + k, v is False, ctx.where(fn), "`%s` %s" % (k, "rejected" if v is False else ("accepted as an identifier" if v is True else "not established (%s)" % why[:1])))
    v, why = ev("")
    R.ob(rid, "empty-rejected", v is False, ctx.where(fn), "the empty string is %s" % ("rejected" if v is False else "accepted / not established %s" % why[:1]))
    bad_first, bad_later, unk = [], [], []
    for c in range(128):
        ch = chr(c)
        first_ok = ch.isalpha() or ch == "_"
        later_ok = ch.isalnum() or ch == "_"
        v1, w1 = ev(ch)
        v2, w2 = ev("a" + ch)
        if not first_ok and v1 is not False:
            (bad_first if v1 is True else unk).append(repr(ch))
        if not later_ok and v2 is not False:
            (bad_later if v2 is True else unk).append(repr("a" + ch))
    R.ob(rid, "no-leading-digit", not bad_first, ctx.where(fn), "every one-character name that does not start a Lua name is refused" if not bad_first else "accepted as names: %s" % bad_first[:8])
    R.ob(rid, "later-characters", not bad_later, ctx.where(fn), "every `a<c>` with c outside [A-Za-z0-9_] is refused" if not bad_later else "accepted as names: %s" % bad_later[:8])
    R.ob(rid, "table-established", not unk, ctx.where(fn), "all 256 character cells evaluate to a boolean" if not unk else "not established for %s" % unk[:6])
    v, why = ev("\u00e9")
    R.ob(rid, "non-ascii-rejected", v is False, ctx.where(fn), "a non-ASCII letter is %s" % ("refused" if v is False else "accepted / not established %s" % why[:1]))


def total(R, ctx):
    rid = "C14.total"
    lib = ctx.lib
    R.rule(rid, "every value-producing serde::Serializer method of the Lua data serializer hands an expression to process_expression (or delegates to "
                "another serialize_* / returns an explicit error): no data kind is accepted and dropped")
    n = 0
    for im in lib.impls:
        if not (im.get("trait", "").endswith("ser::Serializer") and "expression_serializer::Serializer" in im["selfs"]):
            continue
        for it in im["items"]:
            if not it["name"].startswith("serialize_"):
                continue
            fn = lib.fns.get(it["path"])
            if fn is None or not thir.body_of(fn):
                continue
            n += 1
            names = {c.get("fname") for c in thir.fn_refs(fn)}
            ok = bool(names & {"process", "process_expression", "begin_table", "serialize_str", "serialize_f64", "serialize_i64", "serialize_u64", "serialize_unit", "serialize_bytes",
                               "serialize_newtype_struct", "serialize", "serialize_seq", "serialize_map", "serialize_unit_variant", "serialize_tuple", "serialize_struct"}) or \
                any(x.get("k") == "Adt" and x.get("variant") == "Err" for x in thir.walk(thir.body_of(fn)))
            R.ob(rid, it["name"], ok, ctx.where(fn), "produces an expression / delegates / errors: %s (calls %s)" % (ok, sorted(x for x in names if x)[:6]))
    R.require(rid, "floor", n >= 20, "", "%d serialize_* methods (floor 20)" % n)


INT_BITS = {"i8": (8, True), "i16": (16, True), "i32": (32, True), "i64": (64, True), "i128": (128, True), "isize": (64, True),
            "u8": (8, False), "u16": (16, False), "u32": (32, False), "u64": (64, False), "u128": (128, False), "usize": (64, False)}


def cast_is_lossy(src, dst):
    if src in INT_BITS and dst in INT_BITS:
        sb, ss = INT_BITS[src]
        db, ds = INT_BITS[dst]
        if ss == ds:
            return db < sb
        if not ss and ds:      # unsigned -> signed needs a strictly wider target
            return db <= sb
        return True            # signed -> unsigned loses negatives
    if src in INT_BITS and dst == "f32":
        return True
    if src in ("f64", "f32") and dst in INT_BITS:
        return True
    if src == "f64" and dst == "f32":
        return True
    return False


def casts(R, ctx):
    rid = "C14.cast"
    lib = ctx.lib
    R.rule(rid, "in the data serializer, numeric `as` casts never wrap or truncate: integers are only widened or converted to f64 (the nearest "
                "double is the documented result); u64 -> i64, i64 -> u64, any narrowing and float -> int casts are violations")
    n = 0
    R.ob(rid, "detector|control", cast_is_lossy("u64", "i64") and not cast_is_lossy("u64", "f64") and not cast_is_lossy("u32", "i64"), "", "positive/negative control", nontrivial=False)
    for f in lib.fn_list:
        if "process::expression_serializer::" not in f["path"] or not thir.body_of(f) or "::test" in f["path"]:
            continue
        for x in thir.walk(thir.body_of(f)):
            if x.get("k") != "Cast":
                continue
            src = lib.types[x["e"]["t"]].get("prim")
            dst = lib.types[x["t"]].get("prim")
            if not src or not dst:
                continue
            n += 1
            R.ob(rid, "%s|%s-as-%s" % (f["path"].split("::")[-1], src, dst), not cast_is_lossy(src, dst), ctx.where(f, x.get("ln")),
                 "`%s as %s` %s" % (src, dst, "wraps/truncates: large or negative integers of the document change value" if cast_is_lossy(src, dst) else "is value-preserving up to the nearest double"))
    R.require(rid, "floor", n >= 1, "", "%d numeric casts in the serializer (floor 1)" % n)


def bracket(R, ctx):
    """Finite table (256 bytes) of the predicate that gates the long-bracket form of a string literal."""
    from . import c02
    rid = "C14.bracket"
    lib = ctx.lib
    R.rule(rid, "generator::utils::write_string only takes the long-bracket form `[[..]]` under `!value.iter().any(needs_quoted_string)`, and "
                "needs_quoted_string, expanded over all 256 byte values, is true for CR (0x0D): every Lua/Luau lexer folds CR and CRLF inside a long "
                "bracket to LF, so a CR written raw comes back as a different string (the quoted form writes `\\r`)")
    ws = lib.fn("generator::utils::write_string")
    nq = lib.fn("generator::utils::needs_quoted_string")
    if not R.require(rid, "anchor", ws is not None and nq is not None, "", "write_string / needs_quoted_string not found"):
        return
    # the long-bracket writer may be called from write_string itself or from a helper it calls; the gate may be a condition, a match
    # guard, or a predicate function: it must (transitively) consult needs_quoted_string
    M = guards.Mentions(ctx.an)
    nq_pred = lambda n: n.get("k") in ("Call", "Zst") and (callee_of(n) or n.get("fn") or "").endswith("needs_quoted_string")
    lb = [(f2, c) for f2, c in interproc.scope_calls(lib, ws) if c.get("fname") == "write_long_bracket"]
    if R.require(rid, "anchor:long-bracket-call", len(lb) >= 1, ctx.where(ws), "no call of write_long_bracket in write_string"):
        for f2, c in lb:
            fa = ctx.an.fa(f2["path"])
            gated = M.guarded(fa, c, nq_pred)
            R.ob(rid, "long-bracket-gated", gated, ctx.where(f2, c.get("ln")), "write_long_bracket is reached only under a condition that consults needs_quoted_string: %s" % gated)
    body = thir.body_of(nq)
    params = [b[0] for prm in nq.get("params", []) for b in thir.pat_bindings(prm["pat"])] if nq.get("params") else []
    if not params:
        params = [n["var"] for n in thir.walk(body) if n.get("k") == "Var"][:1]
    try:
        table = {b: bool(c02.char_pred(ctx, nq, params[:1], b, None)) for b in range(256)}
    except Exception as ex:  # unrecognised shape: fail closed
        R.require(rid, "anchor:table", False, ctx.where(nq), "needs_quoted_string is not a pure byte predicate this rule can expand: %s" % ex)
        return
    R.ob(rid, "needs_quoted_string|0x0D", table[0x0D], ctx.where(nq), "CR forces the quoted form" if table[0x0D] else "CR is allowed raw inside a long bracket: CRLF text comes back with LF only")
    raw = sorted(b for b, v in table.items() if not v)
    R.ob(rid, "needs_quoted_string|non-ascii", all(b < 0x80 for b in raw), ctx.where(nq), "bytes allowed raw in a long bracket are ASCII (the output is a UTF-8 String): %s" % (all(b < 0x80 for b in raw)))
    R.meta["long_bracket_raw_bytes"] = "%d bytes: %s" % (len(raw), "".join(chr(b) if 0x21 <= b <= 0x7E else "\\x%02x" % b for b in raw))


def data_values(R, ctx, rid="C14.data"):
    """The serde -> Lua expression serializer driven with every document skeleton of a small grammar (finite-domain evaluation)."""
    from .. import peval
    from ..peval import Enum, Struct, UNKNOWN, some
    lib = ctx.lib
    R.rule(rid, "process::expression_serializer::to_expression, driven through serde's data model (serialize_unit / bool / i64 / f64 / str / seq / "
                "map) for every document skeleton of depth <= 2 built from {null, true, false, 3, -2, 'text', 'two words'} and the keys "
                "{plain, 'two words', 'end', '1x', ''}: the Lua expression built denotes the same value -- a sequence becomes a table with "
                "the same number of positional entries in the same order (a `null` keeps its place, so later elements keep their index), a "
                "map becomes one entry per key with that key's exact text (bare name only for identifiers), scalars keep their value")
    fn = lib.fn("process::expression_serializer::to_expression")
    if not R.require(rid, "anchor", fn is not None, "", "to_expression not found"):
        return
    SER, SEQ, MAP = "serde_core::ser::Serializer", "serde_core::ser::SerializeSeq", "serde_core::ser::SerializeMap"

    def is_ok(r):
        return isinstance(r, Enum) and r.variant == "Ok"

    def drive(pe, ser, v):
        def cm(tr, name, recv, *a):
            return pe.call_method(tr, name, [recv] + list(a))
        if v is None:
            return cm(SER, "serialize_unit", ser)
        if isinstance(v, bool):
            return cm(SER, "serialize_bool", ser, v)
        if isinstance(v, int):
            return cm(SER, "serialize_i64", ser, v)
        if isinstance(v, float):
            return cm(SER, "serialize_f64", ser, v)
        if isinstance(v, str):
            return cm(SER, "serialize_str", ser, v)
        if isinstance(v, list):
            r = cm(SER, "serialize_seq", ser, some(len(v)))
            if not is_ok(r):
                return r
            s2 = r.fields["0"]
            for x in v:
                r2 = cm(SEQ, "serialize_element", s2, Struct("#Doc", {"v": x}))
                if not is_ok(r2):
                    return r2
            return cm(SEQ, "end", s2)
        if isinstance(v, dict):
            r = cm(SER, "serialize_map", ser, some(len(v)))
            if not is_ok(r):
                return r
            s2 = r.fields["0"]
            for k, x in v.items():
                for meth, val in (("serialize_key", k), ("serialize_value", x)):
                    r2 = cm(MAP, meth, s2, Struct("#Doc", {"v": val}))
                    if not is_ok(r2):
                        return r2
            return cm(MAP, "end", s2)
        return UNKNOWN

    def hook(pe, path, fname, args, node):
        if fname == "serialize" and len(args) == 2 and isinstance(args[0], Struct) and args[0].adt == "#Doc":
            return drive(pe, args[1], args[0].fields["v"])
        return NotImplemented

    def text_of(x):
        """bytes held by a StringExpression / the name of an Identifier"""
        if isinstance(x, str):
            return x
        if isinstance(x, peval.Iter):
            x = x.items
        if isinstance(x, list) and all(isinstance(b, int) for b in x):
            return bytes(x).decode("utf-8", "replace")
        if isinstance(x, (Struct, Enum)):
            for f in ("value", "name", "0"):
                if f in x.fields:
                    t = text_of(x.fields[f])
                    if t is not None:
                        return t
        return None

    def denote(e):
        """Independent reading of the Lua data expression built: python value ('?' when not understood)."""
        if not isinstance(e, Enum) or e.adt != EXPR_T:
            return "?"
        v, p0 = e.variant, e.fields.get("0")
        if v == "Nil":
            return None
        if v in ("True", "False"):
            return v == "True"
        if v == "String":
            return text_of(p0)
        if v == "Number":
            num = p0.fields.get("0") if isinstance(p0, Enum) else p0
            f = num.fields.get("float", num.fields.get("value")) if isinstance(num, Struct) else None
            return f if isinstance(f, (int, float)) and not isinstance(f, bool) else "?"
        if v == "Unary" and isinstance(p0, Struct) and isinstance(p0.fields.get("operator"), Enum) and p0.fields["operator"].variant == "Minus":
            inner = denote(p0.fields.get("expression"))
            return -inner if isinstance(inner, (int, float)) else "?"
        if v == "Parenthese" and isinstance(p0, Struct):
            return denote(p0.fields.get("expression"))
        if v == "Table" and isinstance(p0, Struct) and isinstance(p0.fields.get("entries"), list):
            seq, keyed = [], {}
            for ent in p0.fields["entries"]:
                if not isinstance(ent, Enum):
                    return "?"
                body = ent.fields.get("0")
                if ent.variant == "Value":
                    seq.append(denote(body))
                elif ent.variant == "Field" and isinstance(body, Struct):
                    name = text_of(body.fields.get("field"))
                    if name is None or not name.isidentifier() or name in LUA_RESERVED:
                        return "? (bare key `%s`)" % name
                    keyed[name] = denote(body.fields.get("value"))
                elif ent.variant == "Index" and isinstance(body, Struct):
                    keyed[denote(body.fields.get("key"))] = denote(body.fields.get("value"))
                else:
                    return "?"
            if seq and keyed:
                return ("mixed", seq, keyed)
            return keyed if keyed else seq
        return "?"
    scalars = [None, True, False, 3, -2, "text", "two words"]
    keys = ["plain", "two words", "end", "1x", ""]
    docs = list(scalars) + [[], {}]
    docs += [[a, b] for a in (None, 3, "text") for b in (None, True, "two words")] + [[1, None, 3], [None, None, 7], [[1, None], [None, 2]], [{"plain": None}, None, {"end": 1}]]
    docs += [{k: v} for k in keys for v in (None, 3, "text", [None, 1])] + [{"plain": {"end": [None, 2]}}, {"a": 1, "b": 2, "two words": 3}]
    bad, unk = [], []
    for doc in docs:
        pe = peval.PEval(lib, ctx.an, hook)
        try:
            r = pe.call_fn(fn, [Struct("#Doc", {"v": doc})])
        except peval.OutOfFuel:
            r = UNKNOWN
        if not is_ok(r) or pe.unknown_reasons:
            unk.append((doc, pe.unknown_reasons[:1] or [repr(r)[:80]]))
            continue
        got = denote(r.fields["0"])

        def same(a, b):
            if isinstance(a, dict) and isinstance(b, dict):
                # a key whose value is null may be omitted from a Lua table constructor (it denotes the same table)
                ka = {k for k, v in a.items() if v is not None}
                kb = {k for k, v in b.items() if v is not None}
                return ka == kb and all(same(a[k], b[k]) for k in ka)
            if isinstance(a, list) and isinstance(b, list):
                return len(a) == len(b) and all(same(x, y) for x, y in zip(a, b))
            if a in ([], {}) and b in ([], {}):
                return True
            return type(a) is type(b) and a == b or (isinstance(a, (int, float)) and isinstance(b, (int, float)) and not isinstance(a, bool) and not isinstance(b, bool) and a == b)
        if not same(doc, got):
            bad.append("%r is written as a Lua expression denoting %r" % (doc, got))
    R.ob(rid, "to_expression|established", not unk, ctx.where(fn), "all %d documents evaluate" % len(docs) if not unk else "not established for %r %s" % unk[0])
    R.ob(rid, "to_expression|same-value", not bad, ctx.where(fn), "all %d documents denote the same value" % len(docs) if not bad else "%s (%d documents differ)" % (bad[0], len(bad)))


EXPR_T = "nodes::expressions::Expression"
LUA_RESERVED = set(c09.LUA_KEYWORDS)


FORMAT_VALUE = {"json5": "serde_json::value::Value", "serde_json": "serde_json::value::Value", "serde_yaml": "serde_yaml::value::Value", "toml": "toml::value::Value"}


def native_value(R, ctx):
    """A document is read into the value model of ITS OWN format (no lossy intermediate)."""
    rid = "C14.native-value"
    R.rule(rid, "every call or function value of a format's deserializer (json5 / serde_json / serde_yaml / toml `from_str`, `from_slice`, "
                "`from_reader`) in the library and the CLI that is instantiated at a generic document type is instantiated at that format's own "
                "`Value`: serde_json::Value cannot hold non-finite numbers or non-string keys, so YAML `.inf` / `{1: x}` or TOML `nan` read "
                "through it reach the Lua writer as nil / string keys")
    values = set(FORMAT_VALUE.values())
    n = 0
    for crate in (ctx.lib, ctx.bin):
        for f in crate.fn_list:
            b = thir.body_of(f)
            if not b:
                continue
            for node in thir.walk(b):
                p = (callee_of(node) if node.get("k") == "Call" else None) or node.get("fn") or ""
                if not isinstance(p, str) or p.split("::")[0] not in FORMAT_VALUE or p.split("::")[-1] not in ("from_str", "from_slice", "from_reader", "from_value"):
                    continue
                targs = [crate.ty_str(g) for g in node.get("gargs", [])]
                doc = [t for t in targs if t in values]
                if not doc:
                    continue        # read into one of darklua's own types: typed by serde, nothing generic is lost here
                n += 1
                want = FORMAT_VALUE[p.split("::")[0]]
                R.ob(rid, "%s|%s" % (f["path"].split("::<")[0][-70:], p.split("::")[0]), doc == [want], crate_where(ctx, crate, f, node),
                     "%s instantiated at %s" % (p, doc[0]))
    R.require(rid, "floor:sites", n >= 6, "", "%d deserializer sites reading a generic document" % n)


def crate_where(ctx, crate, f, node):
    try:
        return "%s:%s" % (f.get("file", ""), node.get("ln", f.get("line", "")))
    except Exception:
        return ""


def run(R, ctx):
    R.explanation = (
        "Guard-before-act rule on every place where a run-time string becomes a table key or field name, the keyword table of "
        "is_valid_identifier, and totality of the data serializer's method set. Decides that no key can be emitted as a bare name unless it is "
        "an identifier; literal text of numbers/strings (C13) and format-specific parsing are not decided. Decision / transfer functions among these are decided by finite-domain evaluation of their typed tree (sa/peval.py): every point of a small abstract domain is evaluated and compared with the reference; nothing is sampled and no program input exists."
    )
    R.assumptions += ["the five listed functions are the places where data/evaluated strings become names (enumerated from the tree and reviewed)"]
    ident(R, ctx)
    keyword(R, ctx)
    total(R, ctx)
    casts(R, ctx)
    bracket(R, ctx)
    data_values(R, ctx)
    native_value(R, ctx)
    # a key that is not an identifier is written `[<string>]`: with a long-bracket string the `[` `[[` pair (and every other pair of
    # adjacent tokens of the table written for the data) must be kept apart by the separation table the generators share (as C02.fuse)
    from . import c02
    c02.fuse(R, ctx, rid="C14.fuse")

"""C04 retain_lines keeps surviving code on its original line.

Decided:
  C04.shift-cover  shift_token_line reaches every token-bearing AST slot (same coverage proof as C18) [T1+T2]
  C04.keep         Token::replace_with_content keeps the recorded line for both numbered Position
                   variants and Any stays Any; Token::shift_token_line updates both numbered variants  [T4]
  C04.insert       rules that insert lines before existing tokens shift by the inserted amount, rules
                   that append after the last token do not (append_text_comment; bundler apply)        [T6/T3]
  C04.count        the token-based generator's line counter is exact: text reaches `output` only through
                   push_str (which counts newlines) or single ' ' / '\\n' pushes, '\\n' pushes are paired with
                   `current_line += 1`, and current_line is only ever incremented                      [T5]
  C04.pad          write_token_options pads up to the token's line before writing its content          [T3]
"""
from .. import walkers, thir, mir, generators
from ..thir import callee_of
from . import c18

TOKEN = "nodes::token::Token"
POSITION = "nodes::token::Position"
GEN = "generator::token_based::TokenBasedLuaGenerator"


def keep(R, ctx):
    """Transfer table of the two token mutators by finite-domain evaluation (sa/peval.py)."""
    from .. import peval
    from ..peval import Enum, Struct, UNKNOWN
    rid = "C04.keep"
    lib = ctx.lib
    R.rule(rid, "Token::replace_with_content and Token::shift_token_line, evaluated from their typed tree on a token of every Position variant: "
                "replacing the content of a token that records a line (LineNumberReference, LineNumber) yields a position recording the SAME "
                "line with the new content, Any stays line-less; shifting by +5 / -3 adds exactly that amount to the recorded line of both "
                "numbered variants and leaves Any alone")
    TOK, TRV = "nodes::token::Token", "nodes::token::Trivia"
    pa = lib.adts.get(POSITION)
    if not R.require(rid, "anchor:Position", pa is not None and {v["name"] for v in pa["variants"]} >= {"LineNumberReference", "LineNumber", "Any"}, "", "Position variants"):
        return
    fields = {v["name"]: [f["name"] for f in v["fields"]] for v in pa["variants"]}
    R.require(rid, "anchor:Position-fields", "line_number" in fields["LineNumberReference"] and "line_number" in fields["LineNumber"], ctx.adt_where(POSITION), str(fields))

    def positions():
        out = {}
        for v, fs in fields.items():
            vals = {}
            for f in fs:
                vals[f] = 7 if f == "line_number" else (1 if f == "start" else (4 if f == "end" else ("old" if f == "content" else UNKNOWN)))
            out[v] = Enum(POSITION, v, vals)
        return out

    def token(pos):
        return Struct(TOK, {"position": pos, "leading_trivia": [], "trailing_trivia": []})

    def run_(fname, pos, *extra):
        fn = lib.fn("%s::%s" % (TOK, fname))
        t = token(pos)
        pe = peval.PEval(lib, ctx.an)
        try:
            pe.call_fn(fn, [t] + list(extra))
        except peval.OutOfFuel:
            return None, ["no termination"]
        return t.fields.get("position"), pe.unknown_reasons
    fn = lib.fn(TOK + "::replace_with_content")
    if R.require(rid, "anchor:replace_with_content", fn is not None, "", "not found"):
        for v, pos in positions().items():
            after, why = run_("replace_with_content", pos, "new")
            numbered = "line_number" in fields[v]
            if numbered:
                ok = isinstance(after, Enum) and after.fields.get("line_number") == 7 and after.fields.get("content") == "new"
            else:
                ok = isinstance(after, Enum) and "line_number" not in after.fields and after.fields.get("content") == "new"
            R.ob(rid, "replace_with_content|" + v, ok, ctx.where(fn), "Position::%s (line 7) -> %s%s" % (v, after, "" if ok or not why else " (%s)" % why[:2]))
    fn = lib.fn(TOK + "::shift_token_line")
    if R.require(rid, "anchor:shift_token_line", fn is not None, "", "not found"):
        for v, pos in positions().items():
            for amount in (5, -3):
                import copy
                after, why = run_("shift_token_line", copy.deepcopy(pos), amount)
                if "line_number" in fields[v]:
                    ok = isinstance(after, Enum) and after.variant == v and after.fields.get("line_number") == 7 + amount
                else:
                    ok = isinstance(after, Enum) and after == pos
                R.ob(rid, "shift_token_line|%s|%+d" % (v, amount), ok, ctx.where(fn),
                     "line of Position::%s after shifting 7 by %+d: %s%s" % (v, amount, after.fields.get("line_number", "none") if isinstance(after, Enum) else after, "" if ok or not why else " (%s)" % why[:2]))


def bundle_insert(R, ctx):
    rid = "C04.insert"
    lib = ctx.lib
    R.rule(rid, "append_text_comment shifts only for location=start (MIR path rule); BuildModuleDefinitions::apply shifts every module "
                "block and then the entry block by a running total that grows by lines::block_total of each module block")
    c18.shift_only_at_start(R, ctx, rid)
    R.rule(rid, "append_text_comment shifts only for location=start (MIR path rule); BuildModuleDefinitions::apply shifts every module "
                "block and then the entry block by a running total that grows by lines::block_total of each module block")
    fn = lib.fn("rules::bundle::path_require_mode::module_definitions::BuildModuleDefinitions::apply")
    if not R.require(rid, "anchor:BuildModuleDefinitions::apply", fn is not None, "", "not found"):
        return
    a = ctx.an.fa(fn["path"])
    shifts = [c for c in thir.calls(fn) if c.get("fname") in ("flawless_process", "process") and "ShiftTokenLine" in (callee_of(c) or "")]
    R.require(rid, "apply|anchor:shift-calls", len(shifts) >= 2, ctx.where(fn), "%d ShiftTokenLine applications in apply (module blocks + entry expected)" % len(shifts))
    mod_shift = entry_shift = None
    for c in shifts:
        o = a.origins(c["args"][1])
        if any(x[0].endswith("ModuleDefinition") and x[1] == "block" for x in o):
            mod_shift = c
        if ("#param", 1) in o:
            entry_shift = c
    R.ob(rid, "apply|module-blocks-shifted", mod_shift is not None, ctx.where(fn), "each module block is passed to ShiftTokenLine: %s" % (mod_shift is not None))
    R.ob(rid, "apply|entry-block-shifted", entry_shift is not None, ctx.where(fn), "the entry block is passed to ShiftTokenLine: %s" % (entry_shift is not None))
    # the amount: ShiftTokenLine::new(var) where var is incremented by block_total(module.block)
    news = [c for c in thir.calls(fn) if c.get("fname") == "new" and "ShiftTokenLine" in (callee_of(c) or "")]
    amount_vars = set()
    for c in news:
        for x in thir.walk(c["args"][0]):
            if x.get("k") == "Var":
                amount_vars.add(x["var"])
    R.ob(rid, "apply|one-running-total", len(amount_vars) == 1 and len(news) >= 2, ctx.where(fn), "shift amounts come from variables %s" % sorted(amount_vars))
    incr_ok = False
    for n in thir.walk(thir.body_of(fn)):
        if n.get("k") == "AssignOp" and n.get("op") == "AddAssign" or (n.get("k") == "AssignOp" and "Add" in str(n.get("op"))):
            l = n["l"]
            if l.get("k") == "Var" and l["var"] in amount_vars:
                srcs = a.source_calls(n["r"])
                if any(y.get("fname") == "block_total" for y in srcs):
                    bt = [y for y in srcs if y.get("fname") == "block_total"][0]
                    o = a.origins(bt["args"][0])
                    if any(x[0].endswith("ModuleDefinition") and x[1] == "block" for x in o):
                        incr_ok = True
    R.ob(rid, "apply|total-grows-by-block_total", incr_ok, ctx.where(fn), "running total += lines::block_total(module.block): %s" % incr_ok)
    if mod_shift is not None and entry_shift is not None:
        order = [id(c) for c in thir.calls(fn)]
        R.ob(rid, "apply|entry-after-modules", order.index(id(mod_shift)) < order.index(id(entry_shift)), ctx.where(fn), "entry block shifted after the module loop")


def count(R, ctx):
    rid = "C04.count"
    lib = ctx.lib
    R.rule(rid, "in the token-based generator, `output` is written only by push_str (inside fn push_str, which adds count_new_lines to "
                "current_line) or by String::push of a literal ' ' or '\\n' (the latter next to `current_line += 1`); `current_line` is only "
                "ever incremented (+=), never assigned")
    fam = generators.gen_family(ctx, "token_based")
    n_writes = 0
    n_line = 0
    for p in fam.scope:
        fn = lib.fns[p]
        if not (p.startswith("generator::token_based") or p.startswith("<generator::token_based")):
            continue
        a = ctx.an.fa(p)
        short = p.split("::")[-1]
        for n in thir.walk(thir.body_of(fn)):
            k = n.get("k")
            if k == "Call" and "fn" in n and n["args"] and callee_of(n) not in lib.fns:
                o = a.origins(n["args"][0])
                if (GEN, "output") not in o:
                    continue
                fname = n.get("fname")
                if fname in ("len", "chars", "as_str", "is_empty", "ends_with", "last", "as_bytes", "deref", "clone", "borrow", "as_ref"):
                    continue
                # only calls that take the buffer mutably matter
                recv = n["args"][0]
                is_mut = recv.get("k") == "Borrow" and recv.get("mut")
                if not is_mut and fname not in ("push", "push_str", "extend", "insert", "insert_str", "write_str", "write_fmt", "truncate", "clear", "pop"):
                    continue
                n_writes += 1
                if fname == "push_str":
                    ok = short == "push_str" and any(c.get("fname") == "count_new_lines" for c in thir.calls(fn))
                    R.ob(rid, "output|push_str@%s" % short, ok, ctx.where(fn, n.get("ln")),
                         "String::push_str on the output buffer outside the counting primitive `push_str`" if not ok else "counting primitive")
                elif fname == "push":
                    lit = n["args"][1]
                    v = lit.get("v") if lit.get("k") == "Lit" else None
                    if v == "' '":
                        R.ob(rid, "output|push-space@%s" % short, True, ctx.where(fn, n.get("ln")), "space")
                    elif v == "'\\n'":
                        par = a.parent.get(id(n))
                        sib_ok = False
                        if par is not None and par.get("k") == "Block":
                            for st in par["stmts"]:
                                if st.get("k") == "AssignOp" and "Add" in str(st.get("op")) and st["l"].get("k") == "Field" and st["l"].get("f") == "current_line" \
                                        and st["r"].get("k") == "Lit" and st["r"].get("v") == "1":
                                    sib_ok = True
                        R.ob(rid, "output|push-newline-counted@%s" % short, sib_ok, ctx.where(fn, n.get("ln")),
                             "'\\n' pushed %s `current_line += 1` in the same block" % ("with" if sib_ok else "WITHOUT"))
                    else:
                        R.ob(rid, "output|push-other@%s" % short, False, ctx.where(fn, n.get("ln")), "String::push of a non-literal / other character (%s): newlines would not be counted" % v)
                else:
                    R.ob(rid, "output|%s@%s" % (fname, short), False, ctx.where(fn, n.get("ln")),
                         "the output buffer is written with `%s`, which bypasses the line counter" % fname)
            if k in ("Assign", "AssignOp"):
                l = n["l"]
                if l.get("k") == "Field" and l.get("adt") == GEN and l.get("f") == "current_line":
                    n_line += 1
                    ok = k == "AssignOp" and "Add" in str(n.get("op"))
                    R.ob(rid, "current_line|%s@%s" % ("increment" if ok else "assign", short), ok, ctx.where(fn, n.get("ln")),
                         "current_line is %s" % ("incremented" if ok else "assigned/decremented: the counter may move backwards and later tokens get over-padded"))
                if l.get("k") == "Field" and l.get("adt") == GEN and l.get("f") == "output":
                    R.ob(rid, "output|assign@%s" % short, False, ctx.where(fn, n.get("ln")), "the output buffer is reassigned")
    R.require(rid, "floor:output-writes", n_writes >= 3, "", "%d writes to the output buffer found (floor 3)" % n_writes)
    R.require(rid, "floor:line-updates", n_line >= 1, "", "%d updates of current_line found (floor 1)" % n_line)


def pad(R, ctx):
    from .. import interproc
    rid = "C04.pad"
    lib = ctx.lib
    R.rule(rid, "write_token_options (local helpers expanded in place): a loop guarded by `line_number > current_line` (line from "
                "Token::get_line_number) pushes newlines, and it precedes the write of the token content")
    fn = lib.fn("generator::token_based::TokenBasedLuaGenerator::write_token_options")
    if not R.require(rid, "anchor:write_token_options", fn is not None, "", "not found"):
        return

    def srcs(arg, fa):
        # `read` only counts when it is Token::read (trivia have a read of their own)
        return {y.get("fname") for y in fa.source_calls(arg) if y.get("fname") != "read" or "Token" in (callee_of(y) or y.get("fn") or "")}

    def derive(arg, fa, tainted):
        # two facts are tracked at once: "is the token's recorded line" / "is the token's content"
        s_ = srcs(arg, fa)
        return bool({"get_line_number", "read"} & s_) or any(("#param", t) in fa.origins(arg) for t in tainted)

    def line_side(x, fa, tainted):
        return "get_line_number" in srcs(x, fa) or any(("#param", t) in fa.origins(x) for t in tainted)

    def classify(n, fa, tainted):
        k = n.get("k")
        if k == "Loop":
            has_cmp = False
            for x in thir.walk(n):
                if x.get("k") == "Binary" and x.get("op") in ("Gt", "Lt", "Ge", "Le"):
                    cur_l = any(y.get("f") == "current_line" for y in thir.walk(x["l"]) if y.get("k") == "Field")
                    cur_r = any(y.get("f") == "current_line" for y in thir.walk(x["r"]) if y.get("k") == "Field")
                    # direction: pad while the token line is greater than the current line
                    if x["op"] == "Gt" and cur_r and line_side(x["l"], fa, tainted):
                        has_cmp = True
                    if x["op"] == "Lt" and cur_l and line_side(x["r"], fa, tainted):
                        has_cmp = True
            nl = False
            for f2, c in interproc.scope_calls(lib, {"path": None, "thir": {"body": n}, "file": None}, depth=0) if False else []:
                pass
            for x in thir.walk(n):
                if x.get("k") == "Call" and x.get("fname") == "push" and len(x["args"]) > 1 and x["args"][1].get("v") == "'\\n'":
                    nl = True
                if x.get("k") == "Call":
                    q = lib.fn(callee_of(x) or "")
                    if q is not None and thir.body_of(q) and any(y.get("k") == "Call" and y.get("fname") == "push" and len(y["args"]) > 1 and y["args"][1].get("v") == "'\\n'" for y in thir.walk(thir.body_of(q))):
                        nl = True
            if has_cmp and nl:
                return "pad"
        if k == "Call" and n.get("fname") == "push_str" and any("read" in srcs(a_, fa) or any(("#param", t) in fa.origins(a_) for t in tainted) for a_ in n["args"][1:]):
            return "content"
        return None
    ev = [lab for lab, f, n in interproc.linear_events(ctx, fn, classify, derive)]
    R.ob(rid, "write_token_options|pad-loop", "pad" in ev, ctx.where(fn), "padding loop `while line_number > current_line { push('\\n') }` %s" % ("found" if "pad" in ev else "NOT found"))
    if "pad" in ev:
        ok = "content" in ev and ev.index("pad") < ev.index("content")
        R.ob(rid, "write_token_options|pad-before-content", ok, ctx.where(fn), "padding precedes the content write (events %s): %s" % (ev, ok))


def line_totals(R, ctx):
    """utils::lines::block_total on abstract blocks whose last token spans several lines (finite-domain evaluation)."""
    from .. import peval
    from ..peval import Enum, Struct, NONE, some, make
    rid = "C04.total"
    lib = ctx.lib
    R.rule(rid, "lines::block_total (the amount by which the bundler shifts what follows an inlined module), evaluated from its typed tree on a "
                "block whose last token starts on line 2, spans 0 or 2 further lines (a long string) and carries trailing trivia that the parser "
                "recorded on the line where the token ENDS: the total is the recorded line of the last trailing trivia plus the line breaks "
                "inside it -- not the token's first line plus some count (the module would be counted too short and every later line of the "
                "bundle shifted by too little)")
    fn = lib.fn("utils::lines::block_total")
    if not R.require(rid, "anchor", fn is not None, "", "utils::lines::block_total not found"):
        return
    BLOCK, BT = "nodes::block::Block", "nodes::block::BlockTokens"
    TOK, TRV, KIND = "nodes::token::Token", "nodes::token::Trivia", "nodes::token::TriviaKind"
    bt = lib.adts.get(BT)
    have = {f["name"] for v in bt["variants"] for f in v["fields"]} if bt else set()
    if not R.require(rid, "anchor:BlockTokens.final_token", "final_token" in have, ctx.adt_where(BT) if bt else "", "fields: %s" % sorted(have)):
        return
    n, bad = 0, []
    for k in (0, 2):
        content = "[[" + "x\n" * k + "]]"
        end = 2 + k
        for label, trivia in (("newline", [("Whitespace", end, "\n")]),
                              ("comment+blank-lines", [("Comment", end, "--c"), ("Whitespace", end, "\n\n")]),
                              ("two-whitespaces", [("Whitespace", end, "\n"), ("Whitespace", end + 1, "\n")])):
            tv = [Struct(TRV, {"position": Enum(POSITION, "LineNumber", {"line_number": ln, "content": c}), "kind": Enum(KIND, kind)}) for kind, ln, c in trivia]
            tok = Struct(TOK, {"position": Enum(POSITION, "LineNumber", {"line_number": 2, "content": content}), "leading_trivia": [], "trailing_trivia": tv})
            block = make(lib, BLOCK, {"tokens": some(make(lib, BT, {"final_token": some(tok)}))})
            pe = peval.PEval(lib, ctx.an)
            try:
                v = pe.call_fn(fn, [block])
            except peval.OutOfFuel:
                v = None
            n += 1
            want = trivia[-1][1] + trivia[-1][2].count("\n")
            if v != want:
                bad.append("last token on lines 2..%d followed by %s: block_total = %s, expected %d %s" % (end, label, v, want, pe.unknown_reasons[:1] if not isinstance(v, int) else ""))
    R.ob(rid, "block_total|multi-line-last-token", not bad, ctx.where(fn), "all %d layouts give the line where the block's text ends" % n if not bad else bad[0])


def run(R, ctx):
    R.explanation = (
        "Static rules on the line-keeping mechanism: coverage of shift_token_line over every token slot of the AST type graph, "
        "the Position tables of replace_with_content/shift_token_line, where and by how much inserted lines are compensated, and "
        "exactness/monotonicity of the token-based generator's line counter. Decides the mechanism's wiring for all inputs; does not "
        "decide that arbitrary rule pipelines never emit a token whose recorded line is already passed. Decision / transfer functions among these are decided by finite-domain evaluation of their typed tree (sa/peval.py): every point of a small abstract domain is evaluated and compared with the reference; nothing is sampled and no program input exists."
    )
    R.assumptions += ["coverage per (ADT, slot), not path-sensitive", "std String methods are recognised by name"]
    walkers.walker_cover(R, ctx, "C04.shift-cover", "shift_token_line")
    walkers.double_application(R, ctx, "C04.once", "shift_token_line")
    keep(R, ctx)
    bundle_insert(R, ctx)
    count(R, ctx)
    pad(R, ctx)
    line_totals(R, ctx)

"""C04 retain_lines keeps surviving code on its original line.

Decided:
  C04.shift-cover  shift_token_line reaches every token-bearing AST slot (same coverage proof as C18) [T1+T2]
  C04.keep         Token::replace_with_content keeps the recorded line for both numbered Position
                   variants and Any stays Any; Token::shift_token_line updates both numbered variants  [T4]
  C04.insert       rules that insert lines before existing tokens shift by the inserted amount, rules
                   that append after the last token do not (append_text_comment; bundler apply)        [T6/T3]
  C04.count        the token-based generator's line counter is exact: text reaches `output` only through
                   push_str (which counts newlines) or single ' ' / '\\n' pushes, '\\n' pushes are paired with
                   `current_line += 1`, and current_line is only ever incremented                      [T5]
  C04.pad          write_token_options pads up to the token's line before writing its content          [T3]
"""
from .. import walkers, thir, mir, generators
from ..thir import callee_of
from . import c18

TOKEN = "nodes::token::Token"
POSITION = "nodes::token::Position"
GEN = "generator::token_based::TokenBasedLuaGenerator"


def keep(R, ctx):
    """Transfer table of the two token mutators by finite-domain evaluation (sa/peval.py)."""
    from .. import peval
    from ..peval import Enum, Struct, UNKNOWN
    rid = "C04.keep"
    lib = ctx.lib
    R.rule(rid, "Token::replace_with_content and Token::shift_token_line, evaluated from their typed tree on a token of every Position variant: "
                "replacing the content of a token that records a line (LineNumberReference, LineNumber) yields a position recording the SAME "
                "line with the new content, Any stays line-less; shifting by +5 / -3 adds exactly that amount to the recorded line of both "
                "numbered variants and leaves Any alone")
    TOK, TRV = "nodes::token::Token", "nodes::token::Trivia"
    pa = lib.adts.get(POSITION)
    if not R.require(rid, "anchor:Position", pa is not None and {v["name"] for v in pa["variants"]} >= {"LineNumberReference", "LineNumber", "Any"}, "", "Position variants"):
        return
    fields = {v["name"]: [f["name"] for f in v["fields"]] for v in pa["variants"]}
    R.require(rid, "anchor:Position-fields", "line_number" in fields["LineNumberReference"] and "line_number" in fields["LineNumber"], ctx.adt_where(POSITION), str(fields))

    def positions():
        out = {}
        for v, fs in fields.items():
            vals = {}
            for f in fs:
                vals[f] = 7 if f == "line_number" else (1 if f == "start" else (4 if f == "end" else ("old" if f == "content" else UNKNOWN)))
            out[v] = Enum(POSITION, v, vals)
        return out

    def token(pos):
        return Struct(TOK, {"position": pos, "leading_trivia": [], "trailing_trivia": []})

    def run_(fname, pos, *extra):
        fn = lib.fn("%s::%s" % (TOK, fname))
        t = token(pos)
        pe = peval.PEval(lib, ctx.an)
        try:
            pe.call_fn(fn, [t] + list(extra))
        except peval.OutOfFuel:
            return None, ["no termination"]
        return t.fields.get("position"), pe.unknown_reasons
    fn = lib.fn(TOK + "::replace_with_content")
    if R.require(rid, "anchor:replace_with_content", fn is not None, "", "not found"):
        for v, pos in positions().items():
            after, why = run_("replace_with_content", pos, "new")
            numbered = "line_number" in fields[v]
            if numbered:
                ok = isinstance(after, Enum) and after.fields.get("line_number") == 7 and after.fields.get("content") == "new"
            else:
                ok = isinstance(after, Enum) and "line_number" not in after.fields and after.fields.get("content") == "new"
            R.ob(rid, "replace_with_content|" + v, ok, ctx.where(fn), "Position::%s (line 7) -> %s%s" % (v, after, "" if ok or not why else " (%s)" % why[:2]))
    fn = lib.fn(TOK + "::shift_token_line")
    if R.require(rid, "anchor:shift_token_line", fn is not None, "", "not found"):
        for v, pos in positions().items():
            for amount in (5, -3):
                import copy
                after, why = run_("shift_token_line", copy.deepcopy(pos), amount)
                if "line_number" in fields[v]:
                    ok = isinstance(after, Enum) and after.variant == v and after.fields.get("line_number") == 7 + amount
                else:
                    ok = isinstance(after, Enum) and after == pos
                R.ob(rid, "shift_token_line|%s|%+d" % (v, amount), ok, ctx.where(fn),
                     "line of Position::%s after shifting 7 by %+d: %s%s" % (v, amount, after.fields.get("line_number", "none") if isinstance(after, Enum) else after, "" if ok or not why else " (%s)" % why[:2]))


def bundle_insert(R, ctx):
    rid = "C04.insert"
    lib = ctx.lib
    R.rule(rid, "append_text_comment shifts only for location=start (MIR path rule); BuildModuleDefinitions::apply shifts every module "
                "block and then the entry block by a running total that grows by lines::block_total of each module block")
    c18.shift_only_at_start(R, ctx, rid)
    R.rule(rid, "append_text_comment shifts only for location=start (MIR path rule); BuildModuleDefinitions::apply shifts every module "
                "block and then the entry block by a running total that grows by lines::block_total of each module block")
    fn = lib.fn("rules::bundle::path_require_mode::module_definitions::BuildModuleDefinitions::apply")
    if not R.require(rid, "anchor:BuildModuleDefinitions::apply", fn is not None, "", "not found"):
        return
    a = ctx.an.fa(fn["path"])
    shifts = [c for c in thir.calls(fn) if c.get("fname") in ("flawless_process", "process") and "ShiftTokenLine" in (callee_of(c) or "")]
    R.require(rid, "apply|anchor:shift-calls", len(shifts) >= 2, ctx.where(fn), "%d ShiftTokenLine applications in apply (module blocks + entry expected)" % len(shifts))
    mod_shift = entry_shift = None
    for c in shifts:
        o = a.origins(c["args"][1])
        if any(x[0].endswith("ModuleDefinition") and x[1] == "block" for x in o):
            mod_shift = c
        if ("#param", 1) in o:
            entry_shift = c
    R.ob(rid, "apply|module-blocks-shifted", mod_shift is not None, ctx.where(fn), "each module block is passed to ShiftTokenLine: %s" % (mod_shift is not None))
    R.ob(rid, "apply|entry-block-shifted", entry_shift is not None, ctx.where(fn), "the entry block is passed to ShiftTokenLine: %s" % (entry_shift is not None))
    # the amount: ShiftTokenLine::new(var) where var is incremented by block_total(module.block)
    news = [c for c in thir.calls(fn) if c.get("fname") == "new" and "ShiftTokenLine" in (callee_of(c) or "")]
    amount_vars = set()
    for c in news:
        for x in thir.walk(c["args"][0]):
            if x.get("k") == "Var":
                amount_vars.add(x["var"])
    R.ob(rid, "apply|one-running-total", len(amount_vars) == 1 and len(news) >= 2, ctx.where(fn), "shift amounts come from variables %s" % sorted(amount_vars))
    incr_ok = False
    for n in thir.walk(thir.body_of(fn)):
        if n.get("k") == "AssignOp" and n.get("op") == "AddAssign" or (n.get("k") == "AssignOp" and "Add" in str(n.get("op"))):
            l = n["l"]
            if l.get("k") == "Var" and l["var"] in amount_vars:
                srcs = a.source_calls(n["r"])
                if any(y.get("fname") == "block_total" for y in srcs):
                    bt = [y for y in srcs if y.get("fname") == "block_total"][0]
                    o = a.origins(bt["args"][0])
                    if any(x[0].endswith("ModuleDefinition") and x[1] == "block" for x in o):
                        incr_ok = True
    R.ob(rid, "apply|total-grows-by-block_total", incr_ok, ctx.where(fn), "running total += lines::block_total(module.block): %s" % incr_ok)
    if mod_shift is not None and entry_shift is not None:
        order = [id(c) for c in thir.calls(fn)]
        R.ob(rid, "apply|entry-after-modules", order.index(id(mod_shift)) < order.index(id(entry_shift)), ctx.where(fn), "entry block shifted after the module loop")


def _is_line_comment(text):
    """Lua: `--[`, any number of `=`, `[` opens a long comment; every other `--` comment ends at the end of the line"""
    if not text.startswith("--["):
        return True
    rest = text[3:].lstrip("=")
    return not rest.startswith("[")


def lines_eval(R, ctx):
    """The token-based generator as a transfer function on (text written, line counter): the counter is exact, tokens land on their lines."""
    import itertools
    from .. import peval
    from ..peval import make, Enum, NONE, some
    from . import c13
    lib = ctx.lib
    rid_c, rid_p = "C04.count", "C04.pad"
    R.rule(rid_c, "the generator that keeps lines (found by role: the LuaGenerator built from the original text, with an integer line counter), "
                  "driven through LuaGenerator::write_expression and evaluated from its typed tree on expressions whose tokens carry recorded "
                  "lines (in order, with gaps, out of order), trivia of every kind between them (spaces, newlines, line comments with and "
                  "without their newline, long comments spanning lines), token contents spanning lines (long strings, interpolated "
                  "segments) and token-less nodes: after every scenario the line counter equals its initial value plus the number of "
                  "newlines written (no write bypasses it, it never runs ahead)")
    R.rule(rid_p, "same scenarios: every token is written on its recorded line whenever the text before it has not passed that line yet, "
                  "otherwise on the first line available (after a pending line comment: the next line); nothing recorded is lost")
    N, T = "nodes::", "nodes::token::"
    gens = [g for g in c13.generators(ctx) if g[2] == [""]]
    if not R.require(rid_c, "anchor:line-keeping-generator", len(gens) == 1, "", "generators built from the original text: %s" % [g[0] for g in gens]):
        return
    G, new, nargs = gens[0]
    fields = [f for v in lib.adts[G]["variants"] for f in v["fields"]]
    counter = [f["name"] for f in fields if f["tys"] == "usize"]
    outbuf = [f["name"] for f in fields if f["tys"] == "alloc::string::String"]
    if not R.require(rid_c, "anchor:counter-and-buffer", len(counter) == 1 and len(outbuf) == 1, ctx.adt_where(G), "usize fields %s, String fields %s" % (counter, outbuf)):
        return
    we = c13.trait_fn(lib, G, "write_expression")

    def trivia(text, kind):
        return make(lib, T + "Trivia", {"position": Enum(T + "Position", "Any", {"content": text}), "kind": Enum(T + "TriviaKind", kind, {})})

    def tok(text, line, lead=(), trail=()):
        pos = Enum(T + "Position", "LineNumber", {"content": text, "line_number": line}) if line is not None else Enum(T + "Position", "Any", {"content": text})
        return make(lib, T + "Token", {"position": pos, "leading_trivia": [trivia(*t) for t in lead], "trailing_trivia": [trivia(*t) for t in trail]})
    EXPR = c13.EXPR

    def build(spec):
        """spec: list of operands ('id'|'str'|'istr'|'bare', text, line, lead, trail) joined by operator tokens ('+', line, lead, trail)"""
        def operand(o):
            kind, text, line, lead, trail = o
            if kind == "bare":
                return Enum(EXPR, "Identifier", {"0": make(lib, N + "identifier::Identifier", {"name": text, "token": NONE})})
            if kind == "id":
                return Enum(EXPR, "Identifier", {"0": make(lib, N + "identifier::Identifier", {"name": text, "token": some(tok(text, line, lead, trail))})})
            if kind == "str":
                return Enum(EXPR, "String", {"0": make(lib, N + "expressions::string::StringExpression", {"value": list(text.encode()), "token": some(tok(text, line, lead, trail))})})
            IS = N + "expressions::interpolated_string::"
            seg = Enum(IS + "InterpolationSegment", "String", {"0": make(lib, IS + "StringSegment", {"value": list(text.encode()), "token": some(tok(text, line))})})
            return Enum(EXPR, "InterpolatedString", {"0": make(lib, IS + "InterpolatedStringExpression", {"segments": [seg], "tokens": some(make(lib, IS + "InterpolatedStringTokens", {
                "opening_tick": tok("`", line, lead), "closing_tick": tok("`", None, (), trail)}))})})
        node = operand(spec[0])
        for k in range(1, len(spec), 2):
            op = spec[k]
            node = Enum(EXPR, "Binary", {"0": make(lib, N + "expressions::binary::BinaryExpression", {
                "operator": Enum(N + "expressions::binary::BinaryOperator", "Plus", {}), "left": node, "right": operand(spec[k + 1]),
                "token": some(tok(op[0], op[1], op[2], op[3])) if op[1] != "none" else NONE})})
        return node

    def expected(spec):
        """(pieces in writing order with the line each token must land on, total newlines) -- the documented behaviour, independently"""
        line, pending, out = 1, False, []

        def put_trivia(text, kind):
            nonlocal line, pending
            if kind == "Comment":
                if not _is_line_comment(text) and pending:
                    line += 1
                    pending = False
                line += text.count("\n")
                if _is_line_comment(text):
                    pending = True
            else:
                line += text.count("\n")
                if pending and "\n" in text:
                    pending = False

        def put_token(text, rec, lead, trail):
            nonlocal line, pending
            for t in lead:
                put_trivia(*t)
            if text:
                if pending:
                    line += 1
                    pending = False
                if rec is not None and rec > line:
                    line = rec
                out.append((text, line))
                line += text.count("\n")
            for t in trail:
                put_trivia(*t)
        for k, o in enumerate(spec):
            if k % 2 == 1:
                if o[1] == "none":
                    put_token("+", None, (), ())
                else:
                    put_token(o[0], o[1], o[2], o[3])
            elif o[0] == "istr":
                put_token("`", o[2], o[3], ())
                put_token(o[1], o[2], (), ())
                put_token("`", None, (), o[4])
            else:
                put_token(o[1], o[2] if o[0] != "bare" else None, o[3] if o[0] != "bare" else (), o[4] if o[0] != "bare" else ())
        return out, line
    TRAIL = [(), ((" ", "Whitespace"),), (("\n\n", "Whitespace"),), (("--c", "Comment"),), (("--c", "Comment"), ("\n", "Whitespace")), (("--[[x\ny]]", "Comment"),), (("--c", "Comment"), ("--[[d]]", "Comment"))]
    LINES = [(1, 1, 1), (1, 2, 3), (2, 2, 5), (3, 1, 1), (1, 1, 4), (2, 4, 4)]
    THIRD = [("id", "b"), ("bare", "b"), ("str", "[[s\nt]]"), ("istr", "u\nv")]
    bad_c, bad_p, n = [], [], 0
    for (l1, l2, l3), tr, oplead, third in itertools.product(LINES, TRAIL, [(), (("--[[p\nq]]", "Comment"),)], THIRD):
        spec = [("id", "a", l1, (), tr), ("+", l2, oplead, ()), (third[0], third[1], l3, (), ()), ("+", "none", (), ()), ("id", "z", l3 + 1, (), ())]
        want, want_line = expected(spec)
        pe = peval.PEval(lib, ctx.an)
        try:
            gen = pe.call_fn(new, list(nargs))
            start = gen.fields.get(counter[0])
            pe.call_fn(we, [gen, build(spec)])
        except peval.OutOfFuel:
            bad_c.append((spec, "no termination"))
            continue
        n += 1
        text, cnt = gen.fields.get(outbuf[0]), gen.fields.get(counter[0])
        label = "lines %s, trivia after `a` %s, before `+` %s, third operand %s" % ((l1, l2, l3), [t[0] for t in tr], [t[0] for t in oplead], third[0])
        if not isinstance(text, str) or not isinstance(cnt, int) or not isinstance(start, int):
            bad_c.append((label, "not established %s" % pe.unknown_reasons[:2]))
            continue
        if cnt != start + text.count("\n"):
            bad_c.append((label, "counter %d after writing %r (%d newlines, counter started at %d)" % (cnt, text, text.count("\n"), start)))
        pos = 0
        for content, line in want:
            i = text.find(content, pos)
            if i < 0:
                bad_p.append((label, "token %r is missing from %r" % (content, text)))
                break
            got = 1 + text[:i].count("\n")
            if got != line:
                bad_p.append((label, "token %r written on line %d, expected line %d in %r" % (content, got, line, text)))
                break
            pos = i + len(content)
    R.ob(rid_c, "counter-exact", not bad_c, ctx.where(we), "%d scenarios: counter == start + newlines written" % n if not bad_c else "%s: %s" % bad_c[0])
    R.ob(rid_p, "tokens-on-their-lines", not bad_p, ctx.where(we), "%d scenarios: every token on its expected line" % n if not bad_p else "%s: %s" % bad_p[0])
    R.require(rid_c, "floor:scenarios", n >= 300, "", "%d scenarios evaluated" % n)


def line_totals(R, ctx):
    """utils::lines::block_total on abstract blocks whose last token spans several lines (finite-domain evaluation)."""
    from .. import peval
    from ..peval import Enum, Struct, NONE, some, make
    rid = "C04.total"
    lib = ctx.lib
    R.rule(rid, "lines::block_total (the amount by which the bundler shifts what follows an inlined module), evaluated from its typed tree on a "
                "block whose last token starts on line 2, spans 0 or 2 further lines (a long string) and carries trailing trivia that the parser "
                "recorded on the line where the token ENDS: the total is the recorded line of the last trailing trivia plus the line breaks "
                "inside it -- not the token's first line plus some count (the module would be counted too short and every later line of the "
                "bundle shifted by too little)")
    fn = lib.fn("utils::lines::block_total")
    if not R.require(rid, "anchor", fn is not None, "", "utils::lines::block_total not found"):
        return
    BLOCK, BT = "nodes::block::Block", "nodes::block::BlockTokens"
    TOK, TRV, KIND = "nodes::token::Token", "nodes::token::Trivia", "nodes::token::TriviaKind"
    bt = lib.adts.get(BT)
    have = {f["name"] for v in bt["variants"] for f in v["fields"]} if bt else set()
    if not R.require(rid, "anchor:BlockTokens.final_token", "final_token" in have, ctx.adt_where(BT) if bt else "", "fields: %s" % sorted(have)):
        return
    n, bad = 0, []
    for k in (0, 2):
        content = "[[" + "x\n" * k + "]]"
        end = 2 + k
        for label, trivia in (("newline", [("Whitespace", end, "\n")]),
                              ("comment+blank-lines", [("Comment", end, "--c"), ("Whitespace", end, "\n\n")]),
                              ("two-whitespaces", [("Whitespace", end, "\n"), ("Whitespace", end + 1, "\n")])):
            tv = [Struct(TRV, {"position": Enum(POSITION, "LineNumber", {"line_number": ln, "content": c}), "kind": Enum(KIND, kind)}) for kind, ln, c in trivia]
            tok = Struct(TOK, {"position": Enum(POSITION, "LineNumber", {"line_number": 2, "content": content}), "leading_trivia": [], "trailing_trivia": tv})
            block = make(lib, BLOCK, {"tokens": some(make(lib, BT, {"final_token": some(tok)}))})
            pe = peval.PEval(lib, ctx.an)
            try:
                v = pe.call_fn(fn, [block])
            except peval.OutOfFuel:
                v = None
            n += 1
            want = trivia[-1][1] + trivia[-1][2].count("\n")
            if v != want:
                bad.append("last token on lines 2..%d followed by %s: block_total = %s, expected %d %s" % (end, label, v, want, pe.unknown_reasons[:1] if not isinstance(v, int) else ""))
    R.ob(rid, "block_total|multi-line-last-token", not bad, ctx.where(fn), "all %d layouts give the line where the block's text ends" % n if not bad else bad[0])


def append_shift(R, ctx):
    """The header a rule inserts at the start moves every token by exactly the number of lines it occupies."""
    import posixpath
    from .. import peval
    from ..peval import make, ok, Enum, Struct, NONE
    from ..pathmodel import PathV
    rid = "C04.append-shift"
    lib = ctx.lib
    T = "rules::append_text_comment::AppendTextComment"
    R.rule(rid, "AppendTextComment::process at the start of a file, evaluated from its typed tree for texts with and without a trailing newline, "
                "one or several lines, empty lines, a `]]` inside, given inline or read from a file (hooked): the amount handed to "
                "ShiftTokenLine equals the number of line breaks in the trivia inserted before the first token (comment + separator), so every "
                "later token keeps its distance to the header; texts are also processed twice with one rule object (the cached text)")
    proc = lib.fn("<%s as rules::Rule>::process" % T)
    ctors = {"inline": lib.fn(T + "::new"), "file": lib.fn(T + "::from_file_content")}
    if not R.require(rid, "anchor:process", proc is not None and any(ctors.values()) and "rules::Context" in lib.adts, "", "AppendTextComment process / constructors not found"):
        return
    TEXTS = ["x", "x\n", "a\nb", "a\nb\n", "a\n\nb\n\n", "\n", "with ]] inside\nsecond", "one ]=] line"]

    def context():
        over = {}
        for f in lib.adts["rules::Context"]["variants"][0]["fields"]:
            t = f["tys"]
            over[f["name"]] = PathV("src/main.lua") if t == "std::path::PathBuf" else (Struct("#Resources", {}) if "Resources" in t else (NONE if t.startswith("core::option::Option<") else ("" if t.endswith("str") else None)))
        return make(lib, "rules::Context", {k: v for k, v in over.items() if v is not None})
    bad, n = [], 0
    for how, ctor in ctors.items():
        if ctor is None:
            continue
        for text in TEXTS:
            shifts, tokens = [], []

            def hook(pe, path, fname, args, node, text=text):
                if fname == "read_to_string" and path.startswith("std::fs::"):
                    return ok(text)
                if path.endswith("ShiftTokenLine::new") and len(args) == 1:
                    shifts.append(args[0])
                    return NotImplemented
                if any(isinstance(a_, Struct) and a_.adt == "#Block" for a_ in args):
                    if fname.startswith("mutate_") and "token" in fname:
                        tok = make(lib, "nodes::token::Token", {"position": Enum("nodes::token::Position", "Any", {"content": "x"}), "leading_trivia": [], "trailing_trivia": []})
                        tokens.append(tok)
                        return tok
                    return peval.UNIT
                return NotImplemented
            pe = peval.PEval(lib, ctx.an, hook=hook)
            try:
                rule = pe.call_fn(ctor, [text if how == "inline" else "header.txt"])
                for _round in (1, 2):
                    del shifts[:]
                    del tokens[:]
                    r = pe.call_fn(proc, [rule, Struct("#Block", {}), context()])
                    n += 1
                    lead = tokens[-1].fields.get("leading_trivia") if tokens else []
                    inserted = 0
                    for tv in (lead if isinstance(lead, list) else []):
                        c_ = tv.fields["position"].fields.get("content") if isinstance(tv, Struct) else None
                        inserted += c_.count("\n") if isinstance(c_, str) else 0
                    unknown = [w for w in pe.unknown_reasons if w.startswith(("branch on unknown", "match on unknown"))]
                    if unknown or not (isinstance(r, Enum) and r.variant == "Ok"):
                        bad.append((how, text, "not established %s %s" % (repr(r)[:40], unknown[:1])))
                    elif not tokens and not shifts:
                        pass        # an empty text inserts nothing
                    elif len(shifts) != 1 or shifts[0] != inserted:
                        bad.append((how, text, "tokens are shifted by %s but the inserted header takes %d line break(s)" % (shifts, inserted)))
            except peval.OutOfFuel:
                bad.append((how, text, "no termination"))
    R.ob(rid, "shift-equals-lines-inserted", not bad, ctx.where(proc), "%d header insertions" % n if not bad else "%s text %r: %s" % bad[0])
    R.require(rid, "floor:cases", n >= 20, "", "%d insertions evaluated" % n)


def moved_comments(R, ctx, rid="C04.moved-comments"):
    """Comments of a removed statement keep their relative lines on the token that inherits them."""
    from .. import peval, astmodel
    from ..peval import Enum, Struct, some
    lib = ctx.lib
    TOK, TRIV, POS, KIND = "nodes::token::Token", "nodes::token::Trivia", "nodes::token::Position", "nodes::token::TriviaKind"
    R.rule(rid, "Block::remove_statement (how every rule deletes a statement), evaluated from its typed tree on a block whose removed statement "
                "carries 1..4 comments on increasing lines (as leading trivia of its first token, as trailing trivia of its last token, or "
                "split between the two), followed by another statement, by a last statement or by nothing: on the token that inherits them the "
                "comments appear in their order and the line breaks written between two consecutive ones equal the difference of their lines -- "
                "more would push every following token below its line (the generator can only add lines), fewer would join comments")
    fn = lib.fn("nodes::block::Block::remove_statement")
    B = astmodel.Builder(lib)
    dot = [k for k in lib.adts if k.endswith("do_statement::DoTokens")]
    if not R.require(rid, "anchor", fn is not None and thir.body_of(fn) is not None and not B.missing and len(dot) == 1 and all(k in lib.adts for k in (TOK, TRIV, POS, KIND)),
                     "", "Block::remove_statement / token types"):
        return

    def pos(content, line):
        return Enum(POS, "LineNumber", {"content": content, "line_number": line})

    def comment(line):
        return [Struct(TRIV, {"position": pos("--c%d" % line, line), "kind": Enum(KIND, "Comment")}),
                Struct(TRIV, {"position": pos("\n", line), "kind": Enum(KIND, "Whitespace")})]

    def token(content, line, leading=(), trailing=()):
        return Struct(TOK, {"position": pos(content, line), "leading_trivia": list(leading), "trailing_trivia": list(trailing)})

    def do(line, leading=(), trailing=()):
        st = B.do(B.block())
        st.fields["0"].fields["tokens"] = some(Struct(dot[0], {"do": token("do", line, leading), "end": token("end", line, (), trailing)}))
        return st
    line_sets = [(2,), (2, 3), (2, 4), (2, 4, 9), (1, 2, 3, 4), (3, 5, 6, 10), (2, 3, 7), (1, 5, 6)]
    bad, n = [], 0
    for lines in line_sets:
        for split in range(len(lines) + 1):            # the first `split` comments lead the statement, the others trail it
            for follower in ("statement", "last", "none"):
                lead = [t for l in lines[:split] for t in comment(l)]
                trail = [t for l in lines[split:] for t in comment(l)]
                first = do(lines[-1] + 1 if split else lines[0] - 1 if lines[0] > 1 else 1, lead, trail)
                if follower == "statement":
                    blk = B.block([first, do(lines[-1] + 3)])
                elif follower == "last":
                    ls = B.brk()
                    ls.fields["0"] = some(token("break", lines[-1] + 3))
                    blk = B.block([first], ls)
                else:
                    blk = B.block([first])
                pe = peval.PEval(lib, ctx.an, fuel=4000000, max_depth=60)
                try:
                    pe.call_fn(fn, [blk, 0])
                except peval.OutOfFuel:
                    pe.unknown_reasons.append("no termination")
                n += 1
                label = "comments on lines %s (%d leading), followed by %s" % (list(lines), split, follower)
                if pe.unknown_reasons:
                    bad.append((label, "not established %s" % pe.unknown_reasons[:2]))
                    continue
                try:
                    if follower == "statement":
                        heir = blk.fields["statements"][0].fields["0"].fields["tokens"].fields["0"].fields["do"]
                    elif follower == "last":
                        heir = blk.fields["last_statement"].fields["0"].fields["0"].fields["0"]
                    else:
                        heir = blk.fields["tokens"].fields["0"].fields["final_token"].fields["0"]
                    seq = heir.fields["leading_trivia"]
                except (KeyError, AttributeError):
                    bad.append((label, "the inheriting token was not found"))
                    continue
                got, breaks = [], 0
                gaps = []
                for t in seq:
                    c = t.fields["position"].fields.get("content")
                    if t.fields["kind"].variant == "Comment":
                        if got:
                            gaps.append(breaks)
                        got.append(t.fields["position"].fields.get("line_number"))
                        breaks = 0
                    elif isinstance(c, str):
                        breaks += c.count("\n")
                want = [b - a for a, b in zip(lines, lines[1:])]
                if got != list(lines):
                    bad.append((label, "comments inherited: %s" % got))
                elif gaps != want:
                    bad.append((label, "line breaks between consecutive comments %s, their lines differ by %s" % (gaps, want)))
    R.ob(rid, "remove_statement|relative-lines-kept", not bad, ctx.where(fn), "%d layouts" % n if not bad else "%s: %s (%d layouts differ)" % (bad[0][0], bad[0][1], len(bad)))
    R.require(rid, "floor", n >= 60, ctx.where(fn), "%d layouts evaluated" % n)


def run(R, ctx):
    R.explanation = (
        "Static rules on the line-keeping mechanism: coverage of shift_token_line over every token slot of the AST type graph, "
        "the Position tables of replace_with_content/shift_token_line, where and by how much inserted lines are compensated, and "
        "exactness/monotonicity of the token-based generator's line counter. Decides the mechanism's wiring for all inputs; does not "
        "decide that arbitrary rule pipelines never emit a token whose recorded line is already passed. Decision / transfer functions among these are decided by finite-domain evaluation of their typed tree (sa/peval.py): every point of a small abstract domain is evaluated and compared with the reference; nothing is sampled and no program input exists."
    )
    R.assumptions += ["coverage per (ADT, slot), not path-sensitive", "std String methods are recognised by name"]
    walkers.walker_cover(R, ctx, "C04.shift-cover", "shift_token_line")
    walkers.double_application(R, ctx, "C04.once", "shift_token_line")
    # a comment appended at the end hangs on the last token written: anywhere else it pushes the rest of the statement one line down
    c18.last_token_is_last_written(R, ctx, "C04.last-token")
    keep(R, ctx)
    bundle_insert(R, ctx)
    lines_eval(R, ctx)
    append_shift(R, ctx)
    moved_comments(R, ctx)
    line_totals(R, ctx)
    # a lowering rule that duplicates an operand strips the copy's trivia (decided with C06.dup's evaluation)
    from .. import report
    from . import c06
    scratch = report.Report("C06", R.tier)
    c06.dup(scratch, ctx, trivia_rid="C04.copy-trivia")
    for rr, text in scratch.rules.items() if hasattr(scratch, "rules") and isinstance(scratch.rules, dict) else []:
        if rr == "C04.copy-trivia":
            R.rule(rr, text)
    for o in scratch.obligations:
        if o["rule"] == "C04.copy-trivia":
            R.ob(o["rule"], o["key"], o["ok"], o.get("where", ""), o.get("detail", ""))

"""C17 Removal and injection rules change exactly what they name.

Decided:
  C17.shadow   ValueInjection and both RemoveFunctionCallProcessor instantiations are driven by a
               scope-tracking visitor                                                          [T8]
  C17.agree    inside a scope-aware processor every callback that overwrites its node is
               control-dependent on IdentifierTracker::is_identifier_used (sibling callbacks agree) [T3/T7]
  C17.matchers each call matcher asks is_identifier_used for the very constant it compares names to [T7]
  C17.args     the replacement is built from preserve_arguments_side_effects exactly on the
               `preserve_args_side_effects` branch, otherwise from the empty forms                 [T7]
  C17.keep     preserve_arguments_side_effects keeps an argument exactly under
               Evaluator::has_side_effects of that same argument                                    [T7]
  C17.order    kept arguments stay in source order: the accumulators are appended at the tail only  [T5]
Not decided: run-time equivalence with the modified environment.
"""
from .. import thir, guards, coverage
from ..thir import callee_of
from . import c05

VI = "rules::inject_value::ValueInjection"
RFCP = "rules::remove_call_match::RemoveFunctionCallProcessor"

TAIL_OK = {"push", "last_mut", "last", "pop", "len", "is_empty", "into_iter", "new", "with_capacity", "extend", "iter", "clone", "deref", "deref_mut", "as_slice", "first", "collect", "from_iter", "unwrap", "expect"}


def agree(R, ctx):
    rid = "C17.agree"
    lib = ctx.lib
    R.rule(rid, "in a processor that consults the scope tracker, every NodeProcessor callback that assigns through its node parameter does so "
                "under a condition that (through locals / helpers / matcher impls) calls is_identifier_used")
    pred = guards.is_call_named("is_identifier_used")
    M = guards.Mentions(ctx.an)
    n = 0
    for proc in (VI, RFCP):
        over = coverage.impl_methods(lib, coverage.NODE_PROCESSOR, proc)
        R.require(rid, "anchor:" + proc, len(over) >= 2, "", "%d callbacks" % len(over))
        for ti, impl in sorted(over.items()):
            fn = lib.fns[impl]
            fa = ctx.an.fa(impl)
            for asg in guards.node_param_assignments(fa, fn):
                n += 1
                ok = M.guarded(fa, asg, pred)
                R.ob(rid, "%s|%s|guarded" % (proc.split("::")[-1], ti.split("::")[-1]), ok, ctx.where(fn, asg.get("ln")),
                     "the rewrite of the node is %s" % ("guarded by is_identifier_used" if ok else
                                                        "NOT guarded by is_identifier_used: an occurrence that refers to a local/parameter of the same name is rewritten too"))
    R.require(rid, "floor:assignments", n >= 3, "", "%d node rewrites checked (floor 3)" % n)


def matchers(R, ctx):
    rid = "C17.matchers"
    lib = ctx.lib
    R.rule(rid, "each matcher (AssertMatcher::matches, remove_debug_profiling::should_remove_call) returns false under "
                "is_identifier_used(NAME) for the same constant NAME that it compares the call's root identifier with")
    targets = [
        ("<rules::remove_assertions::AssertMatcher as rules::remove_call_match::CallMatch<()>>::matches", "assert"),
        ("rules::remove_debug_profiling::should_remove_call", "debug"),
    ]
    for path, label in targets:
        fn = lib.fn(path)
        if not R.require(rid, "anchor:" + label, fn is not None, "", "%s not found" % path):
            continue
        used_consts, cmp_consts = set(), set()
        for n in thir.walk(thir.body_of(fn)):
            if n.get("k") == "Call" and n.get("fname") == "is_identifier_used":
                for x in thir.walk(n["args"][1]):
                    if x.get("k") == "Const":
                        used_consts.add(x["def"])
                    if x.get("k") == "Lit":
                        used_consts.add(x["v"])
            if n.get("k") == "Call" and n.get("fname") in ("eq", "ne") or n.get("k") == "Binary" and n.get("op") in ("Eq", "Ne"):
                sub = n["args"] if n.get("k") == "Call" else [n["l"], n["r"]]
                # comparison of an identifier's name (get_name) with a constant, where the identifier is a Prefix::Identifier payload
                names = [y for s in sub for y in thir.walk(s) if y.get("k") == "Call" and y.get("fname") == "get_name"]
                is_root = any(any(o == ("nodes::expressions::prefix::Prefix", "Identifier.0") for o in ctx.an.fa(fn["path"]).origins(y["args"][0])) for y in names)
                if names and is_root:
                    for s in sub:
                        for x in thir.walk(s):
                            if x.get("k") == "Const":
                                cmp_consts.add(x["def"])
                            if x.get("k") == "Lit" and x["v"].startswith('"'):
                                cmp_consts.add(x["v"])
        R.ob(rid, "%s|queries-scope" % label, bool(used_consts), ctx.where(fn), "is_identifier_used(%s)" % sorted(used_consts))
        R.ob(rid, "%s|same-name" % label, bool(used_consts) and used_consts == cmp_consts, ctx.where(fn),
             "scope queried for %s, root identifier compared with %s" % (sorted(used_consts), sorted(cmp_consts)))
        # the query leads to `return false` / false
        fa = ctx.an.fa(fn["path"])
        early = False
        for n in thir.walk(thir.body_of(fn)):
            if n.get("k") == "If" and any(c.get("fname") == "is_identifier_used" for c in thir.walk(n["cond"]) if c.get("k") == "Call"):
                neg = n["cond"].get("k") == "Unary"
                rets = [x for x in thir.walk(n["then"]) if x.get("k") == "Return" and x.get("e", {}).get("k") == "Lit" and x["e"]["v"] == "false"]
                early = bool(rets) and not neg
        R.ob(rid, "%s|shadowed-means-no-match" % label, early, ctx.where(fn), "`if is_identifier_used(NAME) { return false }`: %s" % early)


def args(R, ctx):
    rid = "C17.args"
    lib = ctx.lib
    R.rule(rid, "in RemoveFunctionCallProcessor the branch on `self.preserve_args_side_effects` builds the replacement from "
                "preserve_arguments_side_effects(evaluator, call.get_arguments()) on its true branch and from DoStatement::default()/Expression::nil() otherwise")
    over = coverage.impl_methods(lib, coverage.NODE_PROCESSOR, RFCP)
    n = 0
    for ti, impl in sorted(over.items()):
        fn = lib.fns[impl]
        for x in thir.walk(thir.body_of(fn)):
            if x.get("k") == "If" and any(y.get("k") == "Field" and y.get("f") == "preserve_args_side_effects" for y in thir.walk(x["cond"])):
                n += 1
                neg = x["cond"].get("k") == "Unary"
                t_has = any(c.get("fname") == "preserve_arguments_side_effects" for c in thir.walk(x["then"]) if c.get("k") == "Call")
                e_has = "else" in x and any(c.get("fname") == "preserve_arguments_side_effects" for c in thir.walk(x["else"]) if c.get("k") == "Call")
                ok = (t_has and not e_has) if not neg else (e_has and not t_has)
                R.ob(rid, "%s|preserve-branch" % ti.split("::")[-1], ok, ctx.where(fn, x.get("ln")), "arguments with side effects are kept exactly on the preserve branch: %s" % ok)
                # the kept arguments are this call's arguments
                fa = ctx.an.fa(impl)
                for c in thir.walk(x):
                    if c.get("k") == "Call" and c.get("fname") == "preserve_arguments_side_effects":
                        srcs = [y.get("fname") for y in fa.source_calls(c["args"][1])]
                        R.ob(rid, "%s|own-arguments" % ti.split("::")[-1], "get_arguments" in srcs, ctx.where(fn, c.get("ln")), "argument list comes from call.get_arguments(): %s" % ("get_arguments" in srcs))
    R.require(rid, "floor", n >= 1, "", "%d preserve branches" % n)


def keep(R, ctx):
    rid = "C17.keep"
    lib = ctx.lib
    R.rule(rid, "preserve_arguments_side_effects: every expression pushed/collected into the result is tested with Evaluator::has_side_effects "
                "on that same expression (push under `if has_side_effects(x)`, or `.filter(|v| has_side_effects(v))`)")
    fn = lib.fn("utils::preserve_arguments_side_effects::preserve_arguments_side_effects")
    if not R.require(rid, "anchor", fn is not None, "", "not found"):
        return
    fa = ctx.an.fa(fn["path"])
    n = 0
    for c in thir.calls(fn):
        if c.get("fname") == "push":
            n += 1
            pv = {x["var"] for x in thir.walk(c["args"][1]) if x.get("k") == "Var"}
            ok = False
            for cond, kind in guards.conditions_of(fa, c):
                if kind != "then":
                    continue
                for h in thir.walk(cond):
                    if h.get("k") == "Call" and h.get("fname") == "has_side_effects":
                        hv = {x["var"] for x in thir.walk(h["args"][1]) if x.get("k") == "Var"}
                        if pv & hv and cond.get("k") != "Unary":
                            ok = True
            R.ob(rid, "push@%d" % n, ok, ctx.where(fn, c.get("ln")), "pushed expression is the one tested by has_side_effects: %s" % ok)
        if c.get("fname") == "filter":
            n += 1
            clo = [a for a in c["args"] if a.get("k") == "Closure"]
            ok = bool(clo) and any(h.get("fname") == "has_side_effects" for h in thir.walk(clo[0]["body"]["body"]) if h.get("k") == "Call") and \
                not any(h.get("k") == "Unary" and h.get("op") == "Not" for h in thir.walk(clo[0]["body"]["body"]))
            R.ob(rid, "filter@%d" % n, ok, ctx.where(fn, c.get("ln")), "filter predicate is has_side_effects: %s" % ok)
    R.require(rid, "floor", n >= 3, ctx.where(fn), "%d keep sites (floor 3)" % n)


def tail_only(R, ctx, rid, paths):
    lib = ctx.lib
    R.rule(rid, "order-preserving accumulation: in the helpers that turn kept expressions into statements/expressions the accumulator vectors "
                "are only appended at the tail (push / last_mut / extend) and the input is consumed front to back (no rev / insert / search)")
    for path in paths:
        fn = lib.fn(path)
        if not R.require(rid, "anchor:" + path.split("::")[-1], fn is not None, "", "not found"):
            continue
        fa = ctx.an.fa(fn["path"])
        bad = []
        n = 0
        for c in thir.calls(fn):
            if not c["args"] or callee_of(c) in lib.fns:
                continue
            ts = lib.ty_str(lib.strip_refs(c["args"][0]["t"]))
            if (ts.startswith("alloc::vec::Vec<nodes::") or ts.startswith("[nodes::")) and ("Statement" in ts or "Expression" in ts):
                n += 1
                if c.get("fname") not in TAIL_OK:
                    bad.append((c.get("fname"), c.get("ln")))
            if c.get("fname") in ("rev",) and ("#param", 0) in fa.origins(c["args"][0]):
                bad.append(("rev", c.get("ln")))
        for x in thir.walk(thir.body_of(fn)):
            if x.get("k") == "Index":
                ts = lib.ty_str(lib.strip_refs(x["e"]["t"]))
                if ts.startswith("alloc::vec::Vec<nodes::") or ts.startswith("[nodes::"):
                    bad.append(("[index]", x.get("ln")))
        R.ob(rid, "%s|tail-only" % path.split("::")[-1], n >= 1 and not bad, ctx.where(fn),
             "accumulator is touched through %s: an expression can be placed before an earlier-evaluated one" % bad if bad else "%d vector operations, all tail-only" % n)


def run(R, ctx):
    R.explanation = (
        "Guard-before-act rules on typed THIR: the scope query precedes every rewrite in the scope-aware processors (sibling callbacks "
        "agree), the matchers query the scope for the name they match, kept arguments are exactly those with side effects and stay in "
        "order. Decides the wiring of 'what is named and not shadowed'; execution equivalence is not decided."
    )
    R.assumptions += ["Evaluator::has_side_effects is trusted as an analysis here (its table is checked under C08)"]
    c05.shadow_rule(R, ctx, "C17.shadow", (VI, RFCP), "injection/removal")
    agree(R, ctx)
    matchers(R, ctx)
    args(R, ctx)
    keep(R, ctx)
    tail_only(R, ctx, "C17.order", ["utils::expressions_as_statement::expressions_as_statement", "utils::preserve_arguments_side_effects::preserve_arguments_side_effects"])

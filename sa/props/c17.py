"""C17 Removal and injection rules change exactly what they name.

Decided:
  C17.shadow   ValueInjection and both RemoveFunctionCallProcessor instantiations are driven by a
               scope-tracking visitor                                                          [T8]
  C17.agree    inside a scope-aware processor every callback that overwrites its node is
               control-dependent on IdentifierTracker::is_identifier_used (sibling callbacks agree) [T3/T7]
  C17.matchers each call matcher asks is_identifier_used for the very constant it compares names to [T7]
  C17.args     the replacement is built from preserve_arguments_side_effects exactly on the
               `preserve_args_side_effects` branch, otherwise from the empty forms                 [T7]
  C17.keep     preserve_arguments_side_effects keeps an argument exactly under
               Evaluator::has_side_effects of that same argument                                    [T7]
  C17.order    kept arguments stay in source order: the accumulators are appended at the tail only  [T5]
Not decided: run-time equivalence with the modified environment.
"""
from .. import thir, guards, coverage
from ..thir import callee_of
from . import c05

VI = "rules::inject_value::ValueInjection"
RFCP = "rules::remove_call_match::RemoveFunctionCallProcessor"

TAIL_OK = {"push", "last_mut", "last", "pop", "len", "is_empty", "into_iter", "new", "with_capacity", "extend", "iter", "clone", "deref", "deref_mut", "as_slice", "first", "collect", "from_iter", "unwrap", "expect"}


def agree(R, ctx):
    rid = "C17.agree"
    lib = ctx.lib
    R.rule(rid, "in a processor that consults the scope tracker, every NodeProcessor callback that assigns through its node parameter does so "
                "under a condition that (through locals / helpers / matcher impls) calls is_identifier_used")
    pred = guards.is_call_named("is_identifier_used")
    M = guards.Mentions(ctx.an)
    n = 0
    for proc in (VI, RFCP):
        over = coverage.impl_methods(lib, coverage.NODE_PROCESSOR, proc)
        R.require(rid, "anchor:" + proc, len(over) >= 2, "", "%d callbacks" % len(over))
        for ti, impl in sorted(over.items()):
            fn = lib.fns[impl]
            fa = ctx.an.fa(impl)
            for asg in guards.node_param_assignments(fa, fn):
                n += 1
                ok = M.guarded(fa, asg, pred)
                R.ob(rid, "%s|%s|guarded" % (proc.split("::")[-1], ti.split("::")[-1]), ok, ctx.where(fn, asg.get("ln")),
                     "the rewrite of the node is %s" % ("guarded by is_identifier_used" if ok else
                                                        "NOT guarded by is_identifier_used: an occurrence that refers to a local/parameter of the same name is rewritten too"))
    R.require(rid, "floor:assignments", n >= 3, "", "%d node rewrites checked (floor 3)" % n)


def matchers(R, ctx):
    rid = "C17.matchers"
    lib = ctx.lib
    R.rule(rid, "each matcher (AssertMatcher::matches, remove_debug_profiling::should_remove_call) returns false under "
                "is_identifier_used(NAME) for the same constant NAME that it compares the call's root identifier with")
    targets = [
        ("<rules::remove_assertions::AssertMatcher as rules::remove_call_match::CallMatch<()>>::matches", "assert"),
        ("rules::remove_debug_profiling::should_remove_call", "debug"),
    ]
    for path, label in targets:
        fn = lib.fn(path)
        if not R.require(rid, "anchor:" + label, fn is not None, "", "%s not found" % path):
            continue
        used_consts, cmp_consts = set(), set()
        for n in thir.walk(thir.body_of(fn)):
            if n.get("k") == "Call" and n.get("fname") == "is_identifier_used":
                for x in thir.walk(n["args"][1]):
                    if x.get("k") == "Const":
                        used_consts.add(x["def"])
                    if x.get("k") == "Lit":
                        used_consts.add(x["v"])
            if n.get("k") == "Call" and n.get("fname") in ("eq", "ne") or n.get("k") == "Binary" and n.get("op") in ("Eq", "Ne"):
                sub = n["args"] if n.get("k") == "Call" else [n["l"], n["r"]]
                # comparison of an identifier's name (get_name) with a constant, where the identifier is a Prefix::Identifier payload
                names = [y for s in sub for y in thir.walk(s) if y.get("k") == "Call" and y.get("fname") == "get_name"]
                is_root = any(any(o == ("nodes::expressions::prefix::Prefix", "Identifier.0") for o in ctx.an.fa(fn["path"]).origins(y["args"][0])) for y in names)
                if names and is_root:
                    for s in sub:
                        for x in thir.walk(s):
                            if x.get("k") == "Const":
                                cmp_consts.add(x["def"])
                            if x.get("k") == "Lit" and x["v"].startswith('"'):
                                cmp_consts.add(x["v"])
        R.ob(rid, "%s|queries-scope" % label, bool(used_consts), ctx.where(fn), "is_identifier_used(%s)" % sorted(used_consts))
        R.ob(rid, "%s|same-name" % label, bool(used_consts) and used_consts == cmp_consts, ctx.where(fn),
             "scope queried for %s, root identifier compared with %s" % (sorted(used_consts), sorted(cmp_consts)))
        # the query leads to `return false` / false
        fa = ctx.an.fa(fn["path"])
        early = False
        for n in thir.walk(thir.body_of(fn)):
            if n.get("k") == "If" and any(c.get("fname") == "is_identifier_used" for c in thir.walk(n["cond"]) if c.get("k") == "Call"):
                neg = n["cond"].get("k") == "Unary"
                rets = [x for x in thir.walk(n["then"]) if x.get("k") == "Return" and x.get("e", {}).get("k") == "Lit" and x["e"]["v"] == "false"]
                early = bool(rets) and not neg
        R.ob(rid, "%s|shadowed-means-no-match" % label, early, ctx.where(fn), "`if is_identifier_used(NAME) { return false }`: %s" % early)


def args(R, ctx):
    rid = "C17.args"
    lib = ctx.lib
    R.rule(rid, "in RemoveFunctionCallProcessor the branch on `self.preserve_args_side_effects` builds the replacement from "
                "preserve_arguments_side_effects(evaluator, call.get_arguments()) on its true branch and from DoStatement::default()/Expression::nil() otherwise")
    over = coverage.impl_methods(lib, coverage.NODE_PROCESSOR, RFCP)
    n = 0
    for ti, impl in sorted(over.items()):
        fn = lib.fns[impl]
        for x in thir.walk(thir.body_of(fn)):
            if x.get("k") == "If" and any(y.get("k") == "Field" and y.get("f") == "preserve_args_side_effects" for y in thir.walk(x["cond"])):
                n += 1
                neg = x["cond"].get("k") == "Unary"
                t_has = any(c.get("fname") == "preserve_arguments_side_effects" for c in thir.walk(x["then"]) if c.get("k") == "Call")
                e_has = "else" in x and any(c.get("fname") == "preserve_arguments_side_effects" for c in thir.walk(x["else"]) if c.get("k") == "Call")
                ok = (t_has and not e_has) if not neg else (e_has and not t_has)
                R.ob(rid, "%s|preserve-branch" % ti.split("::")[-1], ok, ctx.where(fn, x.get("ln")), "arguments with side effects are kept exactly on the preserve branch: %s" % ok)
                # the kept arguments are this call's arguments
                fa = ctx.an.fa(impl)
                for c in thir.walk(x):
                    if c.get("k") == "Call" and c.get("fname") == "preserve_arguments_side_effects":
                        srcs = [y.get("fname") for y in fa.source_calls(c["args"][1])]
                        R.ob(rid, "%s|own-arguments" % ti.split("::")[-1], "get_arguments" in srcs, ctx.where(fn, c.get("ln")), "argument list comes from call.get_arguments(): %s" % ("get_arguments" in srcs))
    R.require(rid, "floor", n >= 1, "", "%d preserve branches" % n)


EXPR_T = "nodes::expressions::Expression"


def keep(R, ctx):
    """preserve_arguments_side_effects as a function from argument lists to kept lists, by finite-domain evaluation."""
    import itertools
    from .. import peval
    from ..peval import Enum, Struct, UNKNOWN
    rid = "C17.keep"
    lib = ctx.lib
    R.rule(rid, "preserve_arguments_side_effects, evaluated from its typed tree on a tuple call `f(a, b, c)` and a table call "
                "`f{ x = a, [b] = c, d }` for every choice of which operands have side effects: the result is exactly the effectful operands, "
                "each once, in source (evaluation) order; a string call keeps nothing")
    fn = lib.fn("utils::preserve_arguments_side_effects::preserve_arguments_side_effects")
    if not R.require(rid, "anchor", fn is not None, "", "not found"):
        return
    N = "nodes::"
    ARGS, TUP, TAB, ENT = N + "arguments::Arguments", N + "arguments::TupleArguments", N + "expressions::table::TableExpression", N + "expressions::table::TableEntry"
    FE, IE = N + "expressions::table::TableFieldEntry", N + "expressions::table::TableIndexEntry"

    def has(adt, names):
        a_ = lib.adts.get(adt)
        have = {f["name"] for v in a_["variants"] for f in v["fields"]} if a_ else set()
        return R.require(rid, "anchor:fields:" + adt.split("::")[-1], set(names) <= have, ctx.adt_where(adt) if a_ else "", "fields %s" % list(names))
    if not all([has(TUP, ["values"]), has(TAB, ["entries"]), has(FE, ["value"]), has(IE, ["key", "value"])]):
        return

    def leaf(tag):
        return Enum(EXPR_T, "Identifier", {"0": tag})

    def shapes():
        yield "tuple", ["a", "b", "c"], Enum(ARGS, "Tuple", {"0": Struct(TUP, {"values": [leaf("a"), leaf("b"), leaf("c")]})})
        yield "table", ["a", "b", "c", "d"], Enum(ARGS, "Table", {"0": Struct(TAB, {"entries": [
            Enum(ENT, "Field", {"0": Struct(FE, {"value": leaf("a")})}),
            Enum(ENT, "Index", {"0": Struct(IE, {"key": leaf("b"), "value": leaf("c")})}),
            Enum(ENT, "Value", {"0": leaf("d")})]})})
        yield "string", [], Enum(ARGS, "String", {"0": Struct(N + "expressions::string::StringExpression", {})})
    n = 0
    for name, tags, args in shapes():
        bad = []
        for k in range(len(tags) + 1):
            for eff in itertools.combinations(tags, k):
                def hook(pe, path, fname, a_, node, eff=eff):
                    if fname == "has_side_effects" and len(a_) == 2 and isinstance(a_[1], Enum) and a_[1].adt == EXPR_T:
                        return a_[1].fields.get("0") in eff
                    return NotImplemented
                import copy
                pe = peval.PEval(lib, ctx.an, hook)
                try:
                    v = pe.call_fn(fn, [Struct("#Evaluator", {}), copy.deepcopy(args)])
                except peval.OutOfFuel:
                    v = UNKNOWN
                if isinstance(v, peval.Iter):
                    v = v.rest()
                got = [x.fields.get("0") if isinstance(x, Enum) else "?" for x in v] if isinstance(v, list) else None
                n += 1
                if got != list(eff):
                    bad.append((list(eff), got, pe.unknown_reasons[:1]))
        R.ob(rid, "kept|%s-call" % name, not bad, ctx.where(fn),
             "for every choice of effectful operands the kept list is exactly those operands in order" if not bad else
             "effectful operands %s -> kept %s %s" % (bad[0][0], bad[0][1] if bad[0][1] is not None else "not established", bad[0][2] or ""))
    R.require(rid, "floor", n >= 20, ctx.where(fn), "%d (call shape, effectful subset) cells evaluated" % n)


def tags_in_order(v, out=None):
    """Leaves tagged by the scenario, in depth-first field order (= source order of the fields = evaluation order of the
    nodes built: statements before later statements, left operand before right operand)."""
    from ..peval import Enum, Struct, Iter
    out = [] if out is None else out
    if isinstance(v, Iter):
        v = v.rest()
    if isinstance(v, (Enum, Struct)):
        t = v.fields.get("#tag")
        if t is not None:
            out.append(t)
            return out
        for f in v.fields.values():
            tags_in_order(f, out)
    elif isinstance(v, (list, tuple)):
        for x in v:
            tags_in_order(x, out)
    return out


def eval_order(R, ctx, rid):
    """expressions_as_statement / expressions_as_expression keep evaluation order: finite-domain evaluation."""
    import itertools
    from .. import peval
    from ..peval import Enum, Struct, UNKNOWN
    lib = ctx.lib
    R.rule(rid, "the helpers that turn kept expressions into a statement / an expression, evaluated from their typed tree on every sequence of up "
                "to 4 operands drawn from {plain value, call, parenthesised call}: the node built mentions every operand exactly once and in "
                "the input order (depth-first: earlier statement first, left operand first), i.e. kept side effects run once and in order")
    FC = "nodes::function_call::FunctionCall"
    PAR = "nodes::expressions::parenthese::ParentheseExpression"
    kinds = {
        "v": lambda t: Enum(EXPR_T, "Identifier", {"#tag": t}),
        "c": lambda t: Enum(EXPR_T, "Call", {"0": Struct(FC, {"#tag": t})}),
        "p": lambda t: Enum(EXPR_T, "Parenthese", {"0": Struct(PAR, {"expression": Enum(EXPR_T, "Call", {"0": Struct(FC, {"#tag": t})})})}),
    }
    for path in ("utils::expressions_as_statement::expressions_as_statement", "utils::expressions_as_statement::expressions_as_expression"):
        fn = lib.fn(path)
        short = path.split("::")[-1]
        if not R.require(rid, "anchor:" + short, fn is not None, "", "not found"):
            continue
        bad, n = [], 0
        for length in range(1, 5):
            for combo in itertools.product("vcp", repeat=length):
                tags = ["e%d" % i for i in range(length)]
                seq = [kinds[k](t) for k, t in zip(combo, tags)]
                pe = peval.PEval(lib, ctx.an)
                try:
                    v = pe.call_fn(fn, [seq])
                except peval.OutOfFuel:
                    v = UNKNOWN
                got = tags_in_order(v) if v is not UNKNOWN else None
                n += 1
                if got != tags:
                    bad.append(("".join(combo), got, pe.unknown_reasons[:1]))
        R.ob(rid, "%s|tail-only" % short, not bad, ctx.where(fn),
             "all %d operand sequences keep their order" % n if not bad else
             "operand kinds `%s` (v=value, c=call, p=parenthesised call): built node evaluates %s instead of e0..e%d in order %s: an expression can be placed before an "
             "earlier-evaluated one" % (bad[0][0], bad[0][1] if bad[0][1] is not None else "<not established>", len(bad[0][0]) - 1, bad[0][2] or ""))
        R.require(rid, "floor:%s" % short, n >= 100, ctx.where(fn), "%d sequences evaluated" % n)


def run(R, ctx):
    R.explanation = (
        "Guard-before-act rules on typed THIR: the scope query precedes every rewrite in the scope-aware processors (sibling callbacks "
        "agree), the matchers query the scope for the name they match, kept arguments are exactly those with side effects and stay in "
        "order. Decides the wiring of 'what is named and not shadowed'; execution equivalence is not decided. Decision / transfer functions among these are decided by finite-domain evaluation of their typed tree (sa/peval.py): every point of a small abstract domain is evaluated and compared with the reference; nothing is sampled and no program input exists."
    )
    R.assumptions += ["Evaluator::has_side_effects is trusted as an analysis here (its table is checked under C08)"]
    c05.shadow_rule(R, ctx, "C17.shadow", (VI, RFCP), "injection/removal")
    agree(R, ctx)
    matchers(R, ctx)
    args(R, ctx)
    keep(R, ctx)
    eval_order(R, ctx, "C17.order")

"""C17 Removal and injection rules change exactly what they name.

Decided:
  C17.shadow   ValueInjection and both RemoveFunctionCallProcessor instantiations are driven by a
               scope-tracking visitor                                                          [T8]
  C17.agree    inside a scope-aware processor every callback that overwrites its node is
               control-dependent on IdentifierTracker::is_identifier_used (sibling callbacks agree) [T3/T7]
  C17.matchers each call matcher asks is_identifier_used for the very constant it compares names to [T7]
  C17.args     the replacement is built from preserve_arguments_side_effects exactly on the
               `preserve_args_side_effects` branch, otherwise from the empty forms                 [T7]
  C17.keep     preserve_arguments_side_effects keeps an argument exactly under
               Evaluator::has_side_effects of that same argument                                    [T7]
  C17.order    kept arguments stay in source order: the accumulators are appended at the tail only  [T5]
Not decided: run-time equivalence with the modified environment.
"""
from .. import thir, guards, coverage
from ..thir import callee_of
from . import c05

VI = "rules::inject_value::ValueInjection"
RFCP = "rules::remove_call_match::RemoveFunctionCallProcessor"

TAIL_OK = {"push", "last_mut", "last", "pop", "len", "is_empty", "into_iter", "new", "with_capacity", "extend", "iter", "clone", "deref", "deref_mut", "as_slice", "first", "collect", "from_iter", "unwrap", "expect"}


def agree(R, ctx):
    rid = "C17.agree"
    lib = ctx.lib
    R.rule(rid, "in a processor that consults the scope tracker, every NodeProcessor callback that assigns through its node parameter does so "
                "under a condition that (through locals / helpers / matcher impls) calls is_identifier_used")
    pred = guards.is_call_named("is_identifier_used")
    M = guards.Mentions(ctx.an)
    n = 0
    for proc in (VI, RFCP):
        over = coverage.impl_methods(lib, coverage.NODE_PROCESSOR, proc)
        R.require(rid, "anchor:" + proc, len(over) >= 2, "", "%d callbacks" % len(over))
        for ti, impl in sorted(over.items()):
            fn = lib.fns[impl]
            fa = ctx.an.fa(impl)
            for asg in guards.node_param_assignments(fa, fn):
                n += 1
                ok = M.guarded(fa, asg, pred)
                R.ob(rid, "%s|%s|guarded" % (proc.split("::")[-1], ti.split("::")[-1]), ok, ctx.where(fn, asg.get("ln")),
                     "the rewrite of the node is %s" % ("guarded by is_identifier_used" if ok else
                                                        "NOT guarded by is_identifier_used: an occurrence that refers to a local/parameter of the same name is rewritten too"))
    R.require(rid, "floor:assignments", n >= 3, "", "%d node rewrites checked (floor 3)" % n)


def inject_shapes(R, ctx):
    """inject_global_value as a transfer function: each way of naming the global is rewritten exactly when that name is not shadowed."""
    from .. import peval
    from ..peval import make, Enum, NONE, PySet
    rid = "C17.inject"
    lib = ctx.lib
    R.rule(rid, "ValueInjection's expression and prefix callbacks, evaluated from their typed tree on `DEBUG`, `_G.DEBUG`, `_G['DEBUG']` (and "
                "`DEBUG` in prefix position) with a scope tracker that does / does not hold the root name (`DEBUG`, resp. `_G`): the node is "
                "replaced exactly when the root name is free, and other names (`OTHER`, `_G.OTHER`, `t.DEBUG`) are never touched. Every "
                "shape is decided on its own: a guard present for one spelling does not excuse another")
    N = "nodes::"
    EXPR, PREFIX, ID = N + "expressions::Expression", N + "expressions::prefix::Prefix", N + "identifier::Identifier"
    TR = "process::scope_visitor::IdentifierTracker"
    # the injecting processor, by role: the struct next to the rule that holds a scope tracker, the value to inject and the name
    VI = globals()["VI"]
    roles = [p_ for p_, a_ in lib.adts.items() if p_.startswith("rules::inject_value::") and a_.get("kind") == "struct"
             and any(TR in f["tys"] for f in a_["variants"][0]["fields"]) and any(f["tys"].endswith("Expression") for f in a_["variants"][0]["fields"])]
    if len(roles) == 1:
        VI = roles[0]

    def callback(name):
        # the impl may carry lifetime parameters: `<ValueInjection<'_> as NodeProcessor>::..`
        suf = " as process::node_processor::NodeProcessor>::" + name
        return next((f for k, f in lib.fns.items() if k.endswith(suf) and (k.startswith("<" + VI + " ") or k.startswith("<" + VI + "<")) and thir.body_of(f)), None)
    f_expr, f_pref = callback("process_expression"), callback("process_prefix_expression")
    tr_new = lib.fn(TR + "::new")
    sets = [f["name"] for f in lib.adts.get(TR, {"variants": [{"fields": []}]})["variants"][0]["fields"] if "HashSet<alloc::string::String>" in f["tys"]]
    if not R.require(rid, "anchor:callbacks", f_expr is not None and tr_new is not None and len(sets) == 1 and VI in lib.adts, "", "ValueInjection callbacks / IdentifierTracker layout not found"):
        return

    def ident(n):
        return make(lib, ID, {"name": n, "token": NONE})

    def field(root, name):
        return Enum(EXPR, "Field", {"0": make(lib, N + "expressions::field::FieldExpression", {"prefix": Enum(PREFIX, "Identifier", {"0": ident(root)}), "field": ident(name), "token": NONE})})

    def index(root, name):
        s_ = make(lib, N + "expressions::string::StringExpression", {"value": list(name.encode()), "token": NONE})
        return Enum(EXPR, "Index", {"0": make(lib, N + "expressions::index::IndexExpression", {"prefix": Enum(PREFIX, "Identifier", {"0": ident(root)}), "index": Enum(EXPR, "String", {"0": s_}), "tokens": NONE})})
    shapes = [("DEBUG", lambda: Enum(EXPR, "Identifier", {"0": ident("DEBUG")}), f_expr, "DEBUG", True),
              ("_G.DEBUG", lambda: field("_G", "DEBUG"), f_expr, "_G", True),
              ("_G['DEBUG']", lambda: index("_G", "DEBUG"), f_expr, "_G", True),
              ("OTHER", lambda: Enum(EXPR, "Identifier", {"0": ident("OTHER")}), f_expr, "OTHER", False),
              ("_G.OTHER", lambda: field("_G", "OTHER"), f_expr, "_G", False),
              ("t.DEBUG", lambda: field("t", "DEBUG"), f_expr, "t", False),
              ("t['DEBUG']", lambda: index("t", "DEBUG"), f_expr, "t", False)]
    if f_pref is not None:
        shapes.append(("DEBUG (prefix)", lambda: Enum(PREFIX, "Identifier", {"0": ident("DEBUG")}), f_pref, "DEBUG", True))
    over_by_type = {}
    for f in lib.adts[VI]["variants"][0]["fields"]:
        over_by_type[f["name"]] = f["tys"]
    for label, build, fn, root, is_target in shapes:
        for shadowed in (False, True):
            pe = peval.PEval(lib, ctx.an)
            try:
                tr = pe.call_fn(tr_new, [])
                if shadowed:
                    tr.fields[sets[0]] = [PySet([root])]
                over = {}
                for name, ty in over_by_type.items():
                    bare = ty.replace("&'a ", "").replace("&'_ ", "").replace("&", "").replace("mut ", "").strip()
                    over[name] = "DEBUG" if bare in ("alloc::string::String", "str") else (tr if bare == TR else (Enum(EXPR, "True", {"0": NONE}) if bare == EXPR else None))
                vi = make(lib, VI, {k: v for k, v in over.items() if v is not None})
                node = build()
                before = repr(node)
                pe.call_fn(fn, [vi, node])
                replaced = repr(node) != before
                unknown = [w for w in pe.unknown_reasons if w.startswith(("branch on unknown", "match on unknown"))]
            except peval.OutOfFuel:
                replaced, unknown = None, ["no termination"]
            want = is_target and not shadowed
            R.ob(rid, "%s|%s" % (label, "root shadowed" if shadowed else "root free"), replaced is want and not unknown, ctx.where(fn),
                 "%s" % ("replaced" if want else "left alone") if replaced is want and not unknown else
                 "`%s` with `%s` %s is %s (expected %s) %s" % (label, root, "bound by a local / parameter" if shadowed else "free", "REPLACED" if replaced else "left alone", "replaced" if want else "left alone", unknown[:1]))


def _matcher_values(ctx):
    """Every matcher handed to RemoveFunctionCallProcessor::new in the library: [(label, value for peval, site)]."""
    from ..peval import FnItem, Struct
    lib = ctx.lib
    out = []
    for f in lib.fn_list:
        if not thir.body_of(f) or "::test" in f["path"]:
            continue
        for c in thir.calls(f):
            if c.get("fname") == "new" and "RemoveFunctionCallProcessor" in ((callee_of(c) or "") + (c.get("fn") or "")) and len(c["args"]) == 2:
                m = c["args"][1]
                while m.get("k") in ("Borrow", "Use", "Scope", "Coerce", "Cast") and "e" in m:
                    m = m["e"]
                if m.get("k") == "Zst" and "fn" in m:
                    out.append((m["fn"].split("::")[-1], FnItem(m["fn"]), (f, c)))
                else:
                    t = lib.ty_str(lib.strip_refs(m["t"])) if "t" in m else ""
                    if t in lib.adts:
                        out.append((t.split("::")[-1], Struct(t, {}), (f, c)))
                    else:
                        out.append(("?", None, (f, c)))
    return out


def matchers(R, ctx):
    """The call-removal rules as transfer functions on `assert(..)`, `debug.profilebegin(..)`, ... (finite-domain evaluation)."""
    import copy
    from .. import peval
    from ..peval import Enum, Struct, UNKNOWN, NONE, FnItem, make
    rid = "C17.matchers"
    rid_args = "C17.args"
    lib = ctx.lib
    R.rule(rid, "RemoveFunctionCallProcessor::process_statement with each matcher the library builds it with (found at the constructor calls, "
                "whatever the matchers are called), evaluated on the call shapes `assert(..)`, `debug.profilebegin(..)`, `debug.profileend(..)`, "
                "`print(..)`: every shape a matcher removes is left alone as soon as the scope says its root identifier (`assert` / `debug`) "
                "is a local or upvalue")
    R.rule(rid_args, "the same evaluation with three arguments of which the first and the last have side effects: with preserve_arguments_side_effects "
                     "the replacement mentions exactly those two, once, in order; without it the replacement mentions none")
    N = "nodes::"
    STMT, PREFIX, FC, ID, FE = N + "statements::Statement", N + "expressions::prefix::Prefix", N + "function_call::FunctionCall", N + "identifier::Identifier", N + "expressions::field::FieldExpression"
    ARGS, TUP = N + "arguments::Arguments", N + "arguments::TupleArguments"
    new_fn = lib.fn(RFCP + "::new")
    ps = [f for f in lib.fn_list if f["path"].endswith("::process_statement") and "RemoveFunctionCallProcessor" in f["path"] and thir.body_of(f)]
    ms = _matcher_values(ctx)
    if not R.require(rid, "anchor:constructor-sites", new_fn is not None and len(ps) == 1 and len(ms) >= 2 and all(m[1] is not None for m in ms), "",
                     "RemoveFunctionCallProcessor::new / process_statement / matchers passed to it: %s" % [m[0] for m in ms]):
        return
    ps = ps[0]

    def ident(name):
        return make(lib, ID, {"name": name})
    shapes = {
        "assert(..)": ("assert", lambda: Enum(PREFIX, "Identifier", {"0": ident("assert")})),
        "debug.profilebegin(..)": ("debug", lambda: Enum(PREFIX, "Field", {"0": make(lib, FE, {"prefix": Enum(PREFIX, "Identifier", {"0": ident("debug")}), "field": ident("profilebegin")})})),
        "debug.profileend(..)": ("debug", lambda: Enum(PREFIX, "Field", {"0": make(lib, FE, {"prefix": Enum(PREFIX, "Identifier", {"0": ident("debug")}), "field": ident("profileend")})})),
        "print(..)": ("print", lambda: Enum(PREFIX, "Identifier", {"0": ident("print")})),
    }

    def run_(matcher, shape, shadowed, preserve):
        root, build = shapes[shape]
        argv = [Enum(EXPR_T, "Identifier", {"#tag": t}) for t in ("a", "b", "c")]
        call = make(lib, FC, {"prefix": build(), "arguments": Enum(ARGS, "Tuple", {"0": make(lib, TUP, {"values": argv})}), "method": NONE})
        stmt = Enum(STMT, "Call", {"0": call})

        def hook(pe, path, fname, args, node):
            if fname == "matches" and path.endswith("CallMatch::matches") and args:
                m = args[0]
                if isinstance(m, FnItem):
                    q = lib.fn(m.path)
                    nparams = len(q["thir"].get("params", [])) if q else 0
                    return pe.call_fn(q, args[1:] if nparams == 2 else args[2:]) if q else UNKNOWN
                if isinstance(m, Struct):
                    cands = [f for f in lib.fn_list if f["path"].startswith("<%s as " % m.adt) and f["path"].endswith("::matches") and thir.body_of(f)]
                    return pe.call_fn(cands[0], args) if len(cands) == 1 else UNKNOWN
                return UNKNOWN
            if fname == "is_identifier_used" and len(args) == 2 and isinstance(args[1], str):
                return shadowed and args[1] == root
            if fname == "has_side_effects" and len(args) == 2 and isinstance(args[1], Enum) and "#tag" in args[1].fields:
                return args[1].fields["#tag"] in ("a", "c")
            return NotImplemented
        pe = peval.PEval(lib, ctx.an, hook)
        try:
            proc = pe.call_fn(new_fn, [preserve, copy.deepcopy(matcher)])
            pe.call_fn(ps, [proc, stmt])
        except peval.OutOfFuel:
            return None, ["no termination"]
        return stmt, pe.unknown_reasons
    n = 0
    for label, matcher, (sf, sc) in ms:
        removed = []
        for shape in shapes:
            stmt, why = run_(matcher, shape, False, True)
            n += 1
            if stmt is None or why:
                R.ob(rid, "%s|%s|established" % (label, shape), False, ctx.where(sf, sc.get("ln")), "outcome not established %s" % (why[:2],))
                continue
            still_call = stmt.variant == "Call" and tags_in_order(stmt) == ["a", "b", "c"]
            if not still_call:
                removed.append(shape)
        R.require(rid, "%s|anchor:removes-something" % label, len(removed) >= 1 and "print(..)" not in removed, ctx.where(sf, sc.get("ln")), "matcher %s removes %s" % (label, removed))
        for shape in removed:
            stmt, why = run_(matcher, shape, True, True)
            kept = stmt is not None and stmt.variant == "Call" and tags_in_order(stmt) == ["a", "b", "c"] and not why
            R.ob(rid, "%s|shadowed-means-no-match|%s" % (label, shape), kept, ctx.where(sf, sc.get("ln")),
                 "with `%s` declared locally the call is left alone" % shapes[shape][0] if kept else
                 "`local %s = ..; %s` is still removed although it is not the global (statement is now %s %s)" % (shapes[shape][0], shape, stmt.variant if stmt is not None else "?", why[:1]))
            for preserve, want in ((True, ["a", "c"]), (False, [])):
                stmt, why = run_(matcher, shape, False, preserve)
                got = tags_in_order(stmt) if stmt is not None else None
                R.ob(rid_args, "%s|%s|preserve=%s" % (label, shape, preserve), got == want and not why, ctx.where(sf, sc.get("ln")),
                     "arguments kept: %s (expected %s) %s" % (got, want, why[:1] if why else ""))
    R.require(rid, "floor", n >= 8, "", "%d (matcher, shape) cells" % n)


def args(R, ctx):
    pass  # decided together with C17.matchers (same evaluation)


EXPR_T = "nodes::expressions::Expression"


def keep(R, ctx):
    """preserve_arguments_side_effects as a function from argument lists to kept lists, by finite-domain evaluation."""
    import itertools
    from .. import peval
    from ..peval import Enum, Struct, UNKNOWN
    rid = "C17.keep"
    lib = ctx.lib
    R.rule(rid, "preserve_arguments_side_effects, evaluated from its typed tree on a tuple call `f(a, b, c)` and a table call "
                "`f{ x = a, [b] = c, d }` for every choice of which operands have side effects: the result is exactly the effectful operands, "
                "each once, in source (evaluation) order; a string call keeps nothing")
    fn = lib.fn("utils::preserve_arguments_side_effects::preserve_arguments_side_effects")
    if not R.require(rid, "anchor", fn is not None, "", "not found"):
        return
    N = "nodes::"
    ARGS, TUP, TAB, ENT = N + "arguments::Arguments", N + "arguments::TupleArguments", N + "expressions::table::TableExpression", N + "expressions::table::TableEntry"
    FE, IE = N + "expressions::table::TableFieldEntry", N + "expressions::table::TableIndexEntry"

    def has(adt, names):
        a_ = lib.adts.get(adt)
        have = {f["name"] for v in a_["variants"] for f in v["fields"]} if a_ else set()
        return R.require(rid, "anchor:fields:" + adt.split("::")[-1], set(names) <= have, ctx.adt_where(adt) if a_ else "", "fields %s" % list(names))
    if not all([has(TUP, ["values"]), has(TAB, ["entries"]), has(FE, ["value"]), has(IE, ["key", "value"])]):
        return

    def leaf(tag):
        return Enum(EXPR_T, "Identifier", {"0": tag})

    def shapes():
        yield "tuple", ["a", "b", "c"], Enum(ARGS, "Tuple", {"0": Struct(TUP, {"values": [leaf("a"), leaf("b"), leaf("c")]})})
        yield "table", ["a", "b", "c", "d"], Enum(ARGS, "Table", {"0": Struct(TAB, {"entries": [
            Enum(ENT, "Field", {"0": Struct(FE, {"value": leaf("a")})}),
            Enum(ENT, "Index", {"0": Struct(IE, {"key": leaf("b"), "value": leaf("c")})}),
            Enum(ENT, "Value", {"0": leaf("d")})]})})
        yield "string", [], Enum(ARGS, "String", {"0": Struct(N + "expressions::string::StringExpression", {})})
    n = 0
    for name, tags, args in shapes():
        bad = []
        for k in range(len(tags) + 1):
            for eff in itertools.combinations(tags, k):
                def hook(pe, path, fname, a_, node, eff=eff):
                    if fname == "has_side_effects" and len(a_) == 2 and isinstance(a_[1], Enum) and a_[1].adt == EXPR_T:
                        return a_[1].fields.get("0") in eff
                    return NotImplemented
                import copy
                pe = peval.PEval(lib, ctx.an, hook)
                try:
                    v = pe.call_fn(fn, [Struct("#Evaluator", {}), copy.deepcopy(args)])
                except peval.OutOfFuel:
                    v = UNKNOWN
                if isinstance(v, peval.Iter):
                    v = v.rest()
                got = [x.fields.get("0") if isinstance(x, Enum) else "?" for x in v] if isinstance(v, list) else None
                n += 1
                if got != list(eff):
                    bad.append((list(eff), got, pe.unknown_reasons[:1]))
        R.ob(rid, "kept|%s-call" % name, not bad, ctx.where(fn),
             "for every choice of effectful operands the kept list is exactly those operands in order" if not bad else
             "effectful operands %s -> kept %s %s" % (bad[0][0], bad[0][1] if bad[0][1] is not None else "not established", bad[0][2] or ""))
    R.require(rid, "floor", n >= 20, ctx.where(fn), "%d (call shape, effectful subset) cells evaluated" % n)


def tags_in_order(v, out=None):
    """Leaves tagged by the scenario, in depth-first field order (= source order of the fields = evaluation order of the
    nodes built: statements before later statements, left operand before right operand)."""
    from ..peval import Enum, Struct, Iter
    out = [] if out is None else out
    if isinstance(v, Iter):
        v = v.rest()
    if isinstance(v, (Enum, Struct)):
        t = v.fields.get("#tag")
        if t is not None:
            out.append(t)
            return out
        for f in v.fields.values():
            tags_in_order(f, out)
    elif isinstance(v, (list, tuple)):
        for x in v:
            tags_in_order(x, out)
    return out


def eval_order(R, ctx, rid):
    """expressions_as_statement / expressions_as_expression keep evaluation order: finite-domain evaluation."""
    import itertools
    from .. import peval
    from ..peval import Enum, Struct, UNKNOWN
    lib = ctx.lib
    R.rule(rid, "the helpers that turn kept expressions into a statement / an expression, evaluated from their typed tree on every sequence of up "
                "to 4 operands drawn from {plain value, call, parenthesised call}: the node built mentions every operand exactly once and in "
                "the input order (depth-first: earlier statement first, left operand first), i.e. kept side effects run once and in order")
    FC = "nodes::function_call::FunctionCall"
    PAR = "nodes::expressions::parenthese::ParentheseExpression"
    kinds = {
        "v": lambda t: Enum(EXPR_T, "Identifier", {"#tag": t}),
        "c": lambda t: Enum(EXPR_T, "Call", {"0": Struct(FC, {"#tag": t})}),
        "p": lambda t: Enum(EXPR_T, "Parenthese", {"0": Struct(PAR, {"expression": Enum(EXPR_T, "Call", {"0": Struct(FC, {"#tag": t})})})}),
    }
    for path in ("utils::expressions_as_statement::expressions_as_statement", "utils::expressions_as_statement::expressions_as_expression"):
        fn = lib.fn(path)
        short = path.split("::")[-1]
        if not R.require(rid, "anchor:" + short, fn is not None, "", "not found"):
            continue
        bad, n = [], 0
        for length in range(1, 5):
            for combo in itertools.product("vcp", repeat=length):
                tags = ["e%d" % i for i in range(length)]
                seq = [kinds[k](t) for k, t in zip(combo, tags)]
                pe = peval.PEval(lib, ctx.an)
                try:
                    v = pe.call_fn(fn, [seq])
                except peval.OutOfFuel:
                    v = UNKNOWN
                got = tags_in_order(v) if v is not UNKNOWN else None
                n += 1
                if got != tags:
                    bad.append(("".join(combo), got, pe.unknown_reasons[:1]))
        R.ob(rid, "%s|tail-only" % short, not bad, ctx.where(fn),
             "all %d operand sequences keep their order" % n if not bad else
             "operand kinds `%s` (v=value, c=call, p=parenthesised call): built node evaluates %s instead of e0..e%d in order %s: an expression can be placed before an "
             "earlier-evaluated one" % (bad[0][0], bad[0][1] if bad[0][1] is not None else "<not established>", len(bad[0][0]) - 1, bad[0][2] or ""))
        R.require(rid, "floor:%s" % short, n >= 100, ctx.where(fn), "%d sequences evaluated" % n)
        if short != "expressions_as_expression":
            continue
        # an expression short-circuits: whatever the kept calls return, each of them must still run, once and in order
        def run_expr(v, truth, trace):
            while isinstance(v, Enum) and v.adt == peval.OPTION and v.variant == "Some":
                v = v.fields["0"]
            if isinstance(v, Struct) and "expression" in v.fields:
                return run_expr(v.fields["expression"], truth, trace)
            if not isinstance(v, Enum):
                raise ValueError("not an expression: %r" % (v,))
            if v.variant == "Call":
                t = v.fields["0"].fields.get("#tag")
                trace.append(t)
                return truth[t]
            if v.variant in ("Nil", "False"):
                return False
            if v.variant in ("True", "Number", "String", "Table", "Function"):
                return True
            if v.variant in ("Parenthese", "TypeCast"):
                return run_expr(v.fields["0"], truth, trace)
            if v.variant == "Binary":
                b = v.fields["0"]
                op = b.fields["operator"].variant
                l = run_expr(b.fields["left"], truth, trace)
                if op == "And":
                    return run_expr(b.fields["right"], truth, trace) if l else False
                if op == "Or":
                    return True if l else run_expr(b.fields["right"], truth, trace)
            raise ValueError("expression variant %s" % v.variant)
        bad, n = [], 0
        for length in range(0, 5):
            for combo in itertools.product("cp", repeat=length):
                tags = ["e%d" % i for i in range(length)]
                pe = peval.PEval(lib, ctx.an)
                try:
                    v = pe.call_fn(fn, [[kinds[k](t) for k, t in zip(combo, tags)]])
                except peval.OutOfFuel:
                    v = UNKNOWN
                for outcome in itertools.product((True, False), repeat=length):
                    n += 1
                    trace = []
                    try:
                        run_expr(v, dict(zip(tags, outcome)), trace)
                    except (ValueError, KeyError, AttributeError) as x:
                        trace = "<not established: %s %s>" % (x, pe.unknown_reasons[:1])
                    if trace != tags and len(bad) < 3:
                        bad.append(("".join(combo), ["truthy" if o else "falsy" for o in outcome], trace))
        R.ob(rid, "%s|short-circuit" % short, not bad, ctx.where(fn),
             "every kept call runs once and in order whatever the calls return (%d operand sequences x outcomes)" % n if not bad else
             "operands `%s` returning %s: the expression built runs %s: a falsy / truthy result of one kept call skips a later one" % bad[0])
        R.require(rid, "floor:%s|short-circuit" % short, n >= 300, ctx.where(fn), "%d cases" % n)


def reserve_each_call(R, ctx, rid="C17.reserve-each-call"):
    """The replacement of a removed call may mention a global (`select` for remove_assertions): whether that name is shadowed is a
    question about the scope of *this* call, so it is asked again on the way to every replacement."""
    from .. import mir
    lib = ctx.lib
    R.rule(rid, "must-pass-through rule (MIR) in every function of the call-removal processor that asks its matcher for a replacement "
                "(`CallMatch::compute_result`): each path from the entry to that call passes through the matcher's `reserve_globals` "
                "query, and a closure of the same function asks the scope whether the name is used (`is_identifier_used`). A result "
                "remembered from an earlier call site (a flag, a cache filled once) answers for a different scope: a later call under "
                "`local select` would be rewritten to call the local")
    n = 0
    mine = {k: f for k, f in lib.fns.items() if "::test" not in k and f.get("mir") and f.get("file", "").endswith("rules/remove_call_match.rs")}

    def queries(k):
        """(calls reserve_globals, asks the scope) for a function and its closures"""
        r = a = False
        for kk in [k] + [ck for ck in lib.closures if ck.startswith(k + "::{closure")]:
            c_ = mir.get_cfg(lib, kk)
            for _, t in (c_.calls() if c_ is not None else ()):
                cal = c_.callee(t) or ""
                r, a = r or cal.endswith("::reserve_globals"), a or cal.endswith("is_identifier_used")
        return r, a
    helpers = {k for k in mine if all(queries(k))}        # a helper of the processor that does the whole lookup counts as the lookup
    for k, f in mine.items():
        cfg = mir.get_cfg(lib, k)
        if cfg is None:
            continue
        cs = [(i, cfg.callee(t) or "") for i, t in cfg.calls()]
        cs = [(i, "::reserve_globals" if (c in helpers and c != k) else c) for i, c in cs]
        comp = [i for i, c in cs if c.endswith("::compute_result")]
        if not comp:
            continue
        res = [i for i, c in cs if c.endswith("::reserve_globals")]
        asks = False
        for ck in lib.closures:
            if ck.startswith(k + "::{closure"):
                ccfg = mir.get_cfg(lib, ck)
                if ccfg is not None and any((ccfg.callee(t) or "").endswith("is_identifier_used") for _, t in ccfg.calls()):
                    asks = True
        asks = asks or any(c.endswith("is_identifier_used") for _, c in cs) or any((cfg.callee(t) or "") in helpers for _, t in cfg.calls())
        for t in comp:
            n += 1
            ok = bool(res) and cfg.must_pass(res, t) and asks
            R.ob(rid, "%s|compute_result" % k.split("::")[-1], ok, ctx.where(f, cfg.line(t)),
                 "the reserved globals are looked up in the scope of every replaced call" if ok else
                 ("no scope query for the reserved globals in this function" if not (res and asks) else
                  "a path reaches compute_result without asking for the reserved globals again: the answer of an earlier call site is reused"))
    R.require(rid, "floor:sites", n >= 1, "", "%d replacement sites" % n)


def run(R, ctx):
    R.explanation = (
        "Guard-before-act rules on typed THIR: the scope query precedes every rewrite in the scope-aware processors (sibling callbacks "
        "agree), the matchers query the scope for the name they match, kept arguments are exactly those with side effects and stay in "
        "order. Decides the wiring of 'what is named and not shadowed'; execution equivalence is not decided. Decision / transfer functions among these are decided by finite-domain evaluation of their typed tree (sa/peval.py): every point of a small abstract domain is evaluated and compared with the reference; nothing is sampled and no program input exists."
    )
    R.assumptions += ["Evaluator::has_side_effects is trusted as an analysis here (its table is checked under C08)"]
    c05.shadow_rule(R, ctx, "C17.shadow", (VI, RFCP), "injection/removal")
    agree(R, ctx)
    inject_shapes(R, ctx)
    matchers(R, ctx)
    args(R, ctx)
    keep(R, ctx)
    eval_order(R, ctx, "C17.order")
    reserve_each_call(R, ctx)

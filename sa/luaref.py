"""Independent reference reader for the expression sub-language used by C02.reparse: identifiers, the binary and
unary operators of Lua 5.1 + Luau's `//`, parentheses and `--` comments.  Precedence and associativity are those of
the Lua manual (2.5.6); nothing here is derived from darklua."""
import re

BIN_SYMBOL = {
    "And": "and", "Or": "or", "Equal": "==", "NotEqual": "~=", "LowerThan": "<", "LowerOrEqualThan": "<=", "GreaterThan": ">",
    "GreaterOrEqualThan": ">=", "Plus": "+", "Minus": "-", "Asterisk": "*", "Slash": "/", "DoubleSlash": "//", "Percent": "%",
    "Caret": "^", "Concat": "..",
}
UN_SYMBOL = {"Minus": "-", "Not": "not", "Length": "#"}
# (left binding power, right binding power): right-associative operators have right < left
BIN_POWER = {"or": (1, 2), "and": (3, 4), "<": (5, 6), ">": (5, 6), "<=": (5, 6), ">=": (5, 6), "~=": (5, 6), "==": (5, 6),
             "..": (9, 8), "+": (10, 11), "-": (10, 11), "*": (12, 13), "/": (12, 13), "//": (12, 13), "%": (12, 13), "^": (16, 15)}
UNARY_POWER = 14
TOKEN = re.compile(r"\s*(?:(--[^\n]*)|(\.\.\.|\.\.|==|~=|<=|>=|//|[-+*/%^#<>()=])|([A-Za-z_][A-Za-z0-9_]*)|(\d[\w.]*)|(.))", re.S)


class ReadError(Exception):
    pass


def lex(text):
    out, pos = [], 0
    while pos < len(text):
        if text[pos:].strip() == "":
            break
        m = TOKEN.match(text, pos)
        pos = m.end()
        if m.group(1) is not None:
            out.append(("comment", m.group(1)))
        elif m.group(2) is not None:
            out.append(("op", m.group(2)))
        elif m.group(3) is not None:
            out.append(("op", m.group(3)) if m.group(3) in ("and", "or", "not") else ("id", m.group(3)))
        elif m.group(4) is not None:
            out.append(("num", m.group(4)))
        else:
            raise ReadError("unexpected character %r" % m.group(5))
    return out


def parse(text):
    toks = lex(text)
    if any(t[0] == "comment" for t in toks):
        raise ReadError("part of the text is read as a comment: %r" % [t[1] for t in toks if t[0] == "comment"][0])
    pos = [0]

    def peek():
        return toks[pos[0]] if pos[0] < len(toks) else (None, None)

    def take():
        t = peek()
        pos[0] += 1
        return t

    def expr(limit):
        kind, val = take()
        if kind == "op" and val in ("-", "not", "#"):
            left = ("un", val, expr(UNARY_POWER))
        elif kind == "op" and val == "(":
            left = expr(0)
            if take() != ("op", ")"):
                raise ReadError("missing `)`")
        elif kind in ("id", "num"):
            left = ("id", val)
        else:
            raise ReadError("unexpected token %r" % (val,))
        while True:
            kind, val = peek()
            if kind != "op" or val not in BIN_POWER:
                break
            lp, rp = BIN_POWER[val]
            if lp <= limit:
                break
            take()
            left = ("bin", val, left, expr(rp))
        return left
    tree = expr(0)
    if pos[0] != len(toks):
        raise ReadError("trailing tokens %r" % (toks[pos[0]:],))
    return tree


# ---- string literals (independent reader used by C13) -------------------------------------------------------------
class LiteralError(Exception):
    pass


_SIMPLE = {"a": 7, "b": 8, "f": 12, "n": 10, "r": 13, "t": 9, "v": 11, "\\": 92, '"': 34, "'": 39}


def read_string_literal(text, dialect="luau", interpolated=False):
    """Bytes denoted by ONE complete string literal `text` (str) under Lua 5.1 (§2.1) or Luau's lexer rules.

    quoted forms: \\a \\b \\f \\n \\r \\t \\v \\\\ \\" \\' \\<newline> \\ddd (<= 255); Luau adds \\xHH, \\z, \\u{H..} (UTF-8).
    long brackets: `[=*[ ... ]=*]`, a newline right after the opener is dropped, content is raw, no CR allowed here
    (Lua normalises CR / CRLF in long strings, so a CR cannot be written this way).
    `interpolated`: `text` is the inside of one backtick segment (Luau): additionally \\` and \\{ ; bare ` and { are errors.
    Any deviation (unknown escape, raw newline in a quoted string, trailing text) raises LiteralError."""
    data = text.encode("utf-8") if isinstance(text, str) else bytes(text)
    out = bytearray()
    if interpolated:
        quote, i, end = None, 0, len(data)
    else:
        if not data:
            raise LiteralError("empty")
        if data[0:1] == b"[":
            j = 1
            while j < len(data) and data[j:j + 1] == b"=":
                j += 1
            if data[j:j + 1] != b"[":
                raise LiteralError("not a long bracket")
            level = j - 1
            closer = b"]" + b"=" * level + b"]"
            body = data[j + 1:]
            k = body.find(closer)
            if k < 0 or k + len(closer) != len(body):
                raise LiteralError("long bracket closes early or not at all")
            body = body[:k]
            if body[:2] in (b"\r\n", b"\n\r"):
                body = body[2:]
            elif body[:1] in (b"\n", b"\r"):
                body = body[1:]
            if b"\r" in body:
                raise LiteralError("CR inside a long string is normalised by the reader")
            return bytes(body)
        quote = data[0]
        if quote not in (34, 39):
            raise LiteralError("not a string literal")
        i, end = 1, len(data) - 1
        if end < 1 or data[end] != quote:
            raise LiteralError("unterminated")
    while i < end:
        c = data[i]
        if quote is not None and c == quote:
            raise LiteralError("closes early")
        if interpolated and c in (96, 123):
            raise LiteralError("bare ` or { in an interpolated segment")
        if c in (10, 13):
            raise LiteralError("raw newline in a quoted string")
        if c != 92:
            out.append(c)
            i += 1
            continue
        i += 1
        if i >= end:
            raise LiteralError("dangling backslash")
        e = chr(data[i])
        if e in _SIMPLE:
            out.append(_SIMPLE[e])
            i += 1
        elif interpolated and e in "`{":
            out.append(ord(e))
            i += 1
        elif e in "\n\r":
            out.append(10)
            i += 1
            if i < end and chr(data[i]) in "\n\r" and chr(data[i]) != e:
                i += 1
        elif e.isdigit():
            j = i
            while j < end and j < i + 3 and chr(data[j]).isdigit():
                j += 1
            v = int(data[i:j])
            if v > 255:
                raise LiteralError("decimal escape too large")
            out.append(v)
            i = j
        elif dialect == "luau" and e == "x":
            h = data[i + 1:i + 3].decode("ascii", "replace")
            if len(h) != 2 or any(ch not in "0123456789abcdefABCDEF" for ch in h) or i + 3 > end:
                raise LiteralError("bad \\x escape")
            out.append(int(h, 16))
            i += 3
        elif dialect == "luau" and e == "z":
            i += 1
            while i < end and data[i] in (32, 9, 10, 11, 12, 13):
                i += 1
        elif dialect == "luau" and e == "u":
            if data[i + 1:i + 2] != b"{":
                raise LiteralError("bad \\u escape")
            j = data.find(b"}", i + 2, end)
            h = data[i + 2:j].decode("ascii", "replace") if j > 0 else ""
            if j < 0 or not h or any(ch not in "0123456789abcdefABCDEF" for ch in h) or int(h, 16) > 0x10FFFF:
                raise LiteralError("bad \\u escape")
            cp = int(h, 16)
            if cp < 0x80:
                out.append(cp)
            elif cp < 0x800:
                out += bytes([0xC0 | cp >> 6, 0x80 | cp & 0x3F])
            elif cp < 0x10000:
                out += bytes([0xE0 | cp >> 12, 0x80 | (cp >> 6) & 0x3F, 0x80 | cp & 0x3F])
            else:
                out += bytes([0xF0 | cp >> 18, 0x80 | (cp >> 12) & 0x3F, 0x80 | (cp >> 6) & 0x3F, 0x80 | cp & 0x3F])
            i = j + 1
        else:
            raise LiteralError("unknown escape \\%s" % e)
    return bytes(out)


# ---- number literals (independent reader used by C13) -------------------------------------------------------------
_DEC = re.compile(r"(?:\d+\.?\d*|\.\d+)(?:[eE][+-]?\d+)?$") if "re" in globals() else None


def read_number_text(text):
    """The double denoted by the text darklua writes for a number: a Luau / Lua number literal, optionally preceded by a unary
    minus, or one of the three constant expressions `(0/0)`, `(1/0)`, `(-1/0)`.  Raises LiteralError for anything else.

    decimal: digits [. digits] [e|E [+-] digits]  (underscores allowed by Luau between characters, dropped before conversion;
    correctly rounded conversion as strtod / Luau do);  hexadecimal: 0x / 0X hex digits, value taken as an unsigned integer and
    converted to a double; a binary exponent `p`/`P` (C99 strtod, accepted by PUC-Lua builds, NOT by Luau) scales it by 2^n;
    binary: 0b / 0B digits (Luau)."""
    import re as _re
    import math
    t = text.strip()
    if t == "(0/0)":
        return math.nan
    if t == "(1/0)":
        return math.inf
    if t == "(-1/0)":
        return -math.inf
    neg = False
    if t.startswith("-"):
        neg, t = True, t[1:].lstrip()
    if not t or not (t[0].isdigit() or (t[0] == "." and len(t) > 1 and t[1].isdigit())):
        raise LiteralError("not a number literal: %r" % text)
    if "_" in t and (t.startswith("_") or "._" in t[:2]):
        raise LiteralError("underscore not allowed here: %r" % text)
    s = t.replace("_", "")
    if s[:2] in ("0x", "0X"):
        m = _re.fullmatch(r"([0-9a-fA-F]+)(?:[pP]([+-]?\d+))?", s[2:])
        if not m:
            raise LiteralError("malformed hexadecimal literal: %r" % text)
        v = float(int(m.group(1), 16))
        if m.group(2) is not None:
            v = math.ldexp(v, int(m.group(2)))
    elif s[:2] in ("0b", "0B"):
        if not _re.fullmatch(r"[01]+", s[2:]):
            raise LiteralError("malformed binary literal: %r" % text)
        v = float(int(s[2:], 2))
    else:
        if not _re.fullmatch(r"(?:\d+\.?\d*|\.\d+)(?:[eE][+-]?\d+)?", s):
            raise LiteralError("malformed decimal literal: %r" % text)
        try:
            v = float(s)
        except OverflowError:
            v = math.inf
    return -v if neg else v

"""Independent reference reader for the expression sub-language used by C02.reparse: identifiers, the binary and
unary operators of Lua 5.1 + Luau's `//`, parentheses and `--` comments.  Precedence and associativity are those of
the Lua manual (2.5.6); nothing here is derived from darklua."""
import re

BIN_SYMBOL = {
    "And": "and", "Or": "or", "Equal": "==", "NotEqual": "~=", "LowerThan": "<", "LowerOrEqualThan": "<=", "GreaterThan": ">",
    "GreaterOrEqualThan": ">=", "Plus": "+", "Minus": "-", "Asterisk": "*", "Slash": "/", "DoubleSlash": "//", "Percent": "%",
    "Caret": "^", "Concat": "..",
}
UN_SYMBOL = {"Minus": "-", "Not": "not", "Length": "#"}
# (left binding power, right binding power): right-associative operators have right < left
BIN_POWER = {"or": (1, 2), "and": (3, 4), "<": (5, 6), ">": (5, 6), "<=": (5, 6), ">=": (5, 6), "~=": (5, 6), "==": (5, 6),
             "..": (9, 8), "+": (10, 11), "-": (10, 11), "*": (12, 13), "/": (12, 13), "//": (12, 13), "%": (12, 13), "^": (16, 15)}
UNARY_POWER = 14
TOKEN = re.compile(r"\s*(?:(--[^\n]*)|(\.\.\.|\.\.|==|~=|<=|>=|//|[-+*/%^#<>()=])|([A-Za-z_][A-Za-z0-9_]*)|(\d[\w.]*)|(.))", re.S)


class ReadError(Exception):
    pass


def lex(text):
    out, pos = [], 0
    while pos < len(text):
        if text[pos:].strip() == "":
            break
        m = TOKEN.match(text, pos)
        pos = m.end()
        if m.group(1) is not None:
            out.append(("comment", m.group(1)))
        elif m.group(2) is not None:
            out.append(("op", m.group(2)))
        elif m.group(3) is not None:
            out.append(("op", m.group(3)) if m.group(3) in ("and", "or", "not") else ("id", m.group(3)))
        elif m.group(4) is not None:
            out.append(("num", m.group(4)))
        else:
            raise ReadError("unexpected character %r" % m.group(5))
    return out


def parse(text):
    toks = lex(text)
    if any(t[0] == "comment" for t in toks):
        raise ReadError("part of the text is read as a comment: %r" % [t[1] for t in toks if t[0] == "comment"][0])
    pos = [0]

    def peek():
        return toks[pos[0]] if pos[0] < len(toks) else (None, None)

    def take():
        t = peek()
        pos[0] += 1
        return t

    def expr(limit):
        kind, val = take()
        if kind == "op" and val in ("-", "not", "#"):
            left = ("un", val, expr(UNARY_POWER))
        elif kind == "op" and val == "(":
            left = expr(0)
            if take() != ("op", ")"):
                raise ReadError("missing `)`")
        elif kind in ("id", "num"):
            left = ("id", val)
        else:
            raise ReadError("unexpected token %r" % (val,))
        while True:
            kind, val = peek()
            if kind != "op" or val not in BIN_POWER:
                break
            lp, rp = BIN_POWER[val]
            if lp <= limit:
                break
            take()
            left = ("bin", val, left, expr(rp))
        return left
    tree = expr(0)
    if pos[0] != len(toks):
        raise ReadError("trailing tokens %r" % (toks[pos[0]:],))
    return tree

"""Shared analysis context for the property modules."""
import re
from . import facts, thir, typegraph, coverage

VISIT_BLOCK = {
    "process::visitors::NodeVisitor::visit_block": coverage.NODE_VISITOR,
    "process::post_visitor::NodePostVisitor::visit_block": coverage.NODE_POST_VISITOR,
}


def base_name(type_str):
    """'a::b::C<..>' -> 'a::b::C' (strip generic args / lifetimes)."""
    return re.split(r"[<]", type_str, 1)[0].strip()


class Ctx:
    def __init__(self, repo=None):
        self.lib, self.bin, self.hash = facts.load(repo)
        self.an = thir.Analyzer(self.lib)
        self.tg = typegraph.TypeGraph(self.lib)
        self._drivers = None
        self._families = {}

    def where(self, fn_or_path, line=None):
        fn = self.lib.fns.get(fn_or_path) if isinstance(fn_or_path, str) else fn_or_path
        if fn is None and isinstance(fn_or_path, str):
            fn = self.bin.fns.get(fn_or_path)
        if fn is None:
            return str(fn_or_path)
        f = fn["file"]
        return "%s:%s" % (f, line if line is not None else fn["line"])

    def adt_where(self, path):
        a = self.lib.adts.get(path) or self.bin.adts.get(path)
        if not a or "file" not in a:
            return path
        return "%s:%s" % (a["file"], a["line"])

    def drivers(self):
        """Every top-level visitor entry `V::visit_block(block, &mut P)` outside the visitor
        modules: list of dict(caller, trait, visitor, processor, line)."""
        if self._drivers is None:
            out = []
            for f in self.lib.fn_list:
                if f["path"].startswith(("process::visitors::", "process::post_visitor::", "<process::scope_visitor::")):
                    continue
                if not thir.body_of(f):
                    continue
                for c in thir.fn_refs(f):
                    if c["fn"] in VISIT_BLOCK and len(c.get("gargs", [])) >= 2:
                        out.append({
                            "caller": f["path"], "trait": VISIT_BLOCK[c["fn"]],
                            "visitor": base_name(self.lib.ty_str(c["gargs"][0])),
                            "processor": base_name(self.lib.ty_str(c["gargs"][1])),
                            "processor_full": self.lib.ty_str(c["gargs"][1]),
                            "line": c["ln"], "file": f["file"],
                        })
            self._drivers = out
        return self._drivers

    def family(self, visitor_trait, visitor_self, processor_self):
        key = (visitor_trait, visitor_self, processor_self)
        if key not in self._families:
            vs = visitor_self
            if vs in ("process::visitors::DefaultVisitor", "process::post_visitor::DefaultPostVisitor"):
                vs_impl = vs  # Default* impls override nothing but keep the lookup uniform
            else:
                vs_impl = vs
            self._families[key] = coverage.Family(self.lib, self.an, visitor_trait, vs_impl, processor_self)
        return self._families[key]

"""E0: fact extraction orchestration + loading/indexing.

Facts are extracted by the rustc_private driver in /verif/driver from the
*current* working tree of the repository (REPO, default /repo) and cached by a
content hash of every file that feeds the build.  Nothing is reused across
different source hashes.
"""
import fcntl
import hashlib
import json
import os
import shutil
import subprocess
import sys
import time

VERIF = os.path.dirname(os.path.dirname(os.path.abspath(__file__)))
REPO = os.environ.get("VERIF_REPO", "/repo")
WORK = os.path.join(VERIF, ".work")
DRIVER_DIR = os.path.join(VERIF, "driver")
DRIVER_BIN = os.path.join(DRIVER_DIR, "target", "debug", "dlfacts")

# floors measured on the pinned tree (fail closed when the extractor saw less)
FLOORS = {"darklua_core": {"fns": 4500, "adts": 300, "impls": 1500}, "darklua": {"fns": 50, "adts": 10, "impls": 10}}


class ExtractionError(Exception):
    pass


def _env():
    env = dict(os.environ)
    env["CARGO_NET_OFFLINE"] = "true"
    env.pop("RUSTC_WRAPPER", None)
    return env


def source_hash(repo=None):
    repo = repo or REPO
    h = hashlib.sha256()
    files = []
    for root in ("src", ".cargo"):
        base = os.path.join(repo, root)
        for dp, dn, fn in os.walk(base):
            dn.sort()
            for f in sorted(fn):
                files.append(os.path.join(dp, f))
    for f in ("Cargo.toml", "Cargo.lock"):
        files.append(os.path.join(repo, f))
    # the driver's own source is part of the key: a changed extractor invalidates the cache
    for dp, dn, fn in os.walk(os.path.join(DRIVER_DIR, "src")):
        for f in sorted(fn):
            files.append(os.path.join(dp, f))
    for p in sorted(files):
        if not os.path.isfile(p):
            continue
        rel = os.path.relpath(p, repo) if p.startswith(repo) else os.path.relpath(p, VERIF)
        h.update(rel.encode())
        h.update(b"\0")
        with open(p, "rb") as fh:
            h.update(fh.read())
        h.update(b"\0")
    return h.hexdigest()[:24]


def sysroot():
    return subprocess.check_output(["rustc", "+nightly", "--print", "sysroot"], env=_env(), text=True).strip()


def build_driver(quiet=True):
    if os.path.exists(DRIVER_BIN):
        # rebuild only when sources are newer than the binary
        newest = 0
        for dp, dn, fn in os.walk(os.path.join(DRIVER_DIR, "src")):
            for f in fn:
                newest = max(newest, os.path.getmtime(os.path.join(dp, f)))
        if newest <= os.path.getmtime(DRIVER_BIN):
            return
    r = subprocess.run(["cargo", "build", "--offline"], cwd=DRIVER_DIR, env=_env(), capture_output=True, text=True)
    if r.returncode != 0:
        raise ExtractionError("driver build failed:\n" + r.stderr[-4000:])


def extract(repo=None, target_dir=None, out_dir=None):
    """Run the driver over `repo`; returns dir with the two fact files."""
    repo = repo or REPO
    build_driver()
    target_dir = target_dir or os.path.join(WORK, "target")
    os.makedirs(target_dir, exist_ok=True)
    tmp_out = out_dir + ".tmp%d" % os.getpid()
    shutil.rmtree(tmp_out, ignore_errors=True)
    os.makedirs(tmp_out)
    # cargo would replay a cached result and skip the wrapper: forget the members' fingerprints
    fp = os.path.join(target_dir, "debug", ".fingerprint")
    if os.path.isdir(fp):
        for d in os.listdir(fp):
            if d.startswith("darklua-"):
                shutil.rmtree(os.path.join(fp, d), ignore_errors=True)
    env = _env()
    env["LD_LIBRARY_PATH"] = os.path.join(sysroot(), "lib") + ":" + env.get("LD_LIBRARY_PATH", "")
    env["RUSTFLAGS"] = "-Awarnings"
    env["RUSTC_WORKSPACE_WRAPPER"] = DRIVER_BIN
    env["DLFACTS_OUT"] = tmp_out
    env["CARGO_TARGET_DIR"] = target_dir
    env["CARGO_INCREMENTAL"] = "0"
    r = subprocess.run(
        ["cargo", "+nightly", "check", "--offline", "--lib", "--bins", "-q"],
        cwd=repo, env=env, capture_output=True, text=True,
    )
    if r.returncode != 0:
        shutil.rmtree(tmp_out, ignore_errors=True)
        raise ExtractionError("cargo check of %s failed (the tree does not build):\n%s" % (repo, r.stderr[-6000:]))
    for name in ("darklua_core.json", "darklua.json"):
        if not os.path.exists(os.path.join(tmp_out, name)):
            shutil.rmtree(tmp_out, ignore_errors=True)
            raise ExtractionError("driver did not produce %s (wrapper skipped?)" % name)
    shutil.rmtree(out_dir, ignore_errors=True)
    os.rename(tmp_out, out_dir)
    return out_dir


def ensure_facts(repo=None):
    """Facts dir for the current tree of `repo` (extracting when stale)."""
    repo = repo or REPO
    os.makedirs(os.path.join(WORK, "facts"), exist_ok=True)
    h = source_hash(repo)
    out_dir = os.path.join(WORK, "facts", h)
    lock_path = os.path.join(WORK, "extract.lock")
    with open(lock_path, "w") as lk:
        fcntl.flock(lk, fcntl.LOCK_EX)
        if not (os.path.exists(os.path.join(out_dir, "darklua_core.json")) and os.path.exists(os.path.join(out_dir, "darklua.json"))):
            t = time.time()
            extract(repo, None, out_dir)
            with open(os.path.join(out_dir, "meta.json"), "w") as fh:
                json.dump({"hash": h, "repo": repo, "extract_s": round(time.time() - t, 2)}, fh)
            _gc(keep=out_dir)
    return out_dir, h


def _gc(keep, n=6):
    base = os.path.join(WORK, "facts")
    ds = [os.path.join(base, d) for d in os.listdir(base) if os.path.isdir(os.path.join(base, d))]
    ds.sort(key=os.path.getmtime, reverse=True)
    for d in ds[n:]:
        if d != keep:
            shutil.rmtree(d, ignore_errors=True)


def norm_path(p):
    """Strip `::<...>` generic-argument segments from a def path (balanced)."""
    out = []
    i = 0
    n = len(p)
    while i < n:
        if p.startswith("::<", i):
            depth = 0
            j = i + 2
            while j < n:
                if p[j] == "<":
                    depth += 1
                elif p[j] == ">":
                    depth -= 1
                    if depth == 0:
                        break
                j += 1
            i = j + 1
            continue
        out.append(p[i])
        i += 1
    return "".join(out)


class Crate:
    def __init__(self, path):
        with open(path) as fh:
            d = json.load(fh)
        self.name = d["crate"]
        self.types = d["types"]
        self.adts = {a["path"]: a for a in d["adts"]}
        self.adt_list = d["adts"]
        self.traits = {t["path"]: t for t in d["traits"]}
        self.impls = d["impls"]
        self.fn_list = [f for f in d["fns"] if not f.get("closure")]
        self.closures = {f["path"]: f for f in d["fns"] if f.get("closure")}
        self.fns = {}
        for f in self.fn_list:
            self.fns.setdefault(f["path"], f)
        self.consts = {c["path"]: c for c in d["consts"]}
        self.ext = {e["adt"]["path"]: e for e in d["ext"]}
        fl = FLOORS.get(self.name)
        if fl:
            if len(self.fn_list) < fl["fns"] or len(self.adt_list) < fl["adts"] or len(self.impls) < fl["impls"]:
                raise ExtractionError(
                    "fact floors not met for %s: fns=%d adts=%d impls=%d (floors %s)"
                    % (self.name, len(self.fn_list), len(self.adt_list), len(self.impls), fl)
                )

    def fn(self, path):
        """Function by def path; tolerant of inserted generic segments (`Foo::<'a>::bar`)."""
        f = self.fns.get(path)
        if f is not None:
            return f
        if not hasattr(self, "_norm"):
            self._norm = {}
            for p, v in self.fns.items():
                self._norm.setdefault(norm_path(p), v)
        return self._norm.get(norm_path(path))

    # ---- type helpers -------------------------------------------------
    def ty(self, i):
        return self.types[i]

    def ty_str(self, i):
        t = self.types[i]
        if "s" in t:
            return t["s"]
        if "prim" in t:
            return t["prim"]
        if "ref" in t:
            return ("&mut " if t["mut"] else "&") + self.ty_str(t["ref"])
        if "ptr" in t:
            return "*" + self.ty_str(t["ptr"])
        if "slice" in t:
            return "[" + self.ty_str(t["slice"]) + "]"
        if "tuple" in t:
            return "(" + ", ".join(self.ty_str(x) for x in t["tuple"]) + ")"
        if "param" in t:
            return t["param"]
        if "adt" in t:
            return t["adt"]
        for k in ("fndef", "closure", "fnptr", "dyn", "alias", "other"):
            if k in t:
                return "%s:%s" % (k, t[k])
        return "?"

    def strip_refs(self, i):
        """Peel references / Box / Option / Vec etc. lazily: returns the innermost type id after refs only."""
        t = self.types[i]
        while "ref" in t or "ptr" in t:
            i = t.get("ref", t.get("ptr"))
            t = self.types[i]
        return i

    def adts_in(self, i, through=None, seen=None):
        """All ADT paths appearing in type tree i (through wrappers and generic args)."""
        out = []
        stack = [i]
        seen = set()
        while stack:
            j = stack.pop()
            if j in seen:
                continue
            seen.add(j)
            t = self.types[j]
            if "adt" in t:
                out.append(t["adt"])
                stack.extend(t["args"])
            elif "ref" in t:
                stack.append(t["ref"])
            elif "ptr" in t:
                stack.append(t["ptr"])
            elif "slice" in t:
                stack.append(t["slice"])
            elif "tuple" in t:
                stack.extend(t["tuple"])
        return out


_cache = {}


def load(repo=None):
    """Returns (lib Crate, bin Crate, source hash)."""
    repo = repo or REPO
    d, h = ensure_facts(repo)
    if d not in _cache:
        _cache[d] = (Crate(os.path.join(d, "darklua_core.json")), Crate(os.path.join(d, "darklua.json")), h)
    return _cache[d]


if __name__ == "__main__":
    t = time.time()
    lib, binc, h = load()
    print("facts", h, "lib fns", len(lib.fn_list), "adts", len(lib.adt_list), "bin fns", len(binc.fn_list), "in %.1fs" % (time.time() - t))

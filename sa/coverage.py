"""T1/T2: slot coverage of a walker family over the AST type graph.

A *walker family* is a processor P (impl of NodeProcessor) driven by a visitor V,
plus every local function reachable from their callbacks.  A slot (ADT, field) is
*touched* when some qualifying call in that scope receives a value whose origins
include the slot.  Obligation: every slot whose type leads to one of `targets`
(e.g. Token) is touched.
"""
from . import thir
from .thir import callee_of

NODE_VISITOR = "process::visitors::NodeVisitor"
NODE_POST_VISITOR = "process::post_visitor::NodePostVisitor"
NODE_PROCESSOR = "process::node_processor::NodeProcessor"


def impl_methods(crate, trait_path, self_ty_prefix):
    """{trait item path -> impl fn path} for the impl of trait for a self type whose printed form starts with prefix."""
    out = {}
    for im in crate.impls:
        if im.get("trait") == trait_path and im["selfs"].split("<")[0] == self_ty_prefix:
            for it in im["items"]:
                if "trait_item" in it:
                    out[it["trait_item"]] = it["path"]
    return out


def trait_methods(crate, trait_path):
    t = crate.traits[trait_path]
    return {it["path"]: it for it in t["items"]}


class Family:
    """Scope of functions = closure of the call graph from the visitor's methods, with the
    NodeProcessor trait calls bound to processor P's overrides and the visitor trait calls bound
    to V's overrides (else the provided default)."""

    def __init__(self, crate, an, visitor_trait, visitor_self, processor_self, extra_roots=()):
        self.crate = crate
        self.an = an
        self.visitor_trait = visitor_trait
        self.vis_over = impl_methods(crate, visitor_trait, visitor_self) if visitor_self else {}
        self.proc_over = impl_methods(crate, NODE_PROCESSOR, processor_self) if processor_self else {}
        self.vis_methods = trait_methods(crate, visitor_trait)
        self.proc_methods = trait_methods(crate, NODE_PROCESSOR)
        self.roots = [self.bind(p) for p in self.vis_methods] + list(extra_roots)
        self.scope = self._closure()

    def bind(self, callee):
        """Dynamic binding of trait-method paths inside this family."""
        if callee in self.vis_methods:
            return self.vis_over.get(callee, callee)
        if callee in self.proc_methods:
            return self.proc_over.get(callee, callee)
        return callee

    def _closure(self):
        seen = []
        seen_set = set()
        stack = list(self.roots)
        while stack:
            p = stack.pop()
            if p in seen_set:
                continue
            fn = self.crate.fns.get(p)
            if fn is None or not thir.body_of(fn):
                continue
            seen_set.add(p)
            seen.append(p)
            for n in thir.fn_refs(fn):
                c = self.bind(callee_of(n))
                if c not in seen_set and c in self.crate.fns:
                    stack.append(c)
        return seen

    def touched(self, qualifies):
        """{(adt, slot): [(fn path, callee, line)]} over the whole scope."""
        out = {}
        ncalls = 0
        for p in self.scope:
            a = self.an.fa(p)
            if a is None:
                continue
            for call, orig in a.touches(lambda n: qualifies(self.bind(callee_of(n)), n)):
                ncalls += 1
                for o in orig:
                    if o[0] == "#param":
                        continue
                    out.setdefault(o, []).append((p, callee_of(call), call.get("ln")))
        self.qualifying_calls = ncalls
        return out

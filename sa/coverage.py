"""T1/T2: slot coverage of a walker family over the AST type graph.

A *walker family* is a processor P (impl of NodeProcessor) driven by a visitor V,
plus every local function reachable from their callbacks.  A slot (ADT, field) is
*touched* when some qualifying call in that scope receives a value whose origins
include the slot.  Obligation: every slot whose type leads to one of `targets`
(e.g. Token) is touched.
"""
from . import thir
from .thir import callee_of

NODE_VISITOR = "process::visitors::NodeVisitor"
NODE_POST_VISITOR = "process::post_visitor::NodePostVisitor"
NODE_PROCESSOR = "process::node_processor::NodeProcessor"
NODE_POST_PROCESSOR = "process::node_processor::NodePostProcessor"

STD_MUTATORS = {
    "push", "insert", "remove", "clear", "retain", "retain_mut", "take", "replace", "truncate", "pop", "drain",
    "swap", "extend", "append", "push_str", "sort", "sort_by", "sort_by_key", "dedup", "split_off", "resize",
    "swap_remove", "set", "push_front", "push_back", "pop_front", "pop_back", "entry", "get_or_insert_with",
}


def impl_methods(crate, trait_path, self_ty_prefix):
    """{trait item path -> impl fn path} for the impl of trait for a self type whose printed form starts with prefix."""
    out = {}
    for im in crate.impls:
        if im.get("trait") == trait_path and im["selfs"].split("<")[0] == self_ty_prefix:
            for it in im["items"]:
                if "trait_item" in it:
                    out[it["trait_item"]] = it["path"]
    return out


def trait_methods(crate, trait_path):
    t = crate.traits[trait_path]
    return {it["path"]: it for it in t["items"]}


class Family:
    """Scope of functions = closure of the call graph from the visitor's methods, with the
    NodeProcessor trait calls bound to processor P's overrides and the visitor trait calls bound
    to V's overrides (else the provided default)."""

    def __init__(self, crate, an, visitor_trait, visitor_self, processor_self, extra_roots=()):
        self.crate = crate
        self.an = an
        self.visitor_trait = visitor_trait
        self.vis_over = impl_methods(crate, visitor_trait, visitor_self) if visitor_self else {}
        self.proc_over = impl_methods(crate, NODE_PROCESSOR, processor_self) if processor_self else {}
        self.vis_methods = trait_methods(crate, visitor_trait)
        self.proc_methods = trait_methods(crate, NODE_PROCESSOR)
        self.roots = [self.bind(p) for p in self.vis_methods] + list(extra_roots)
        self.scope = self._closure()

    def bind(self, callee):
        """Dynamic binding of trait-method paths inside this family."""
        if callee in self.vis_methods:
            return self.vis_over.get(callee, callee)
        if callee in self.proc_methods:
            return self.proc_over.get(callee, callee)
        return callee

    def _closure(self):
        seen = []
        seen_set = set()
        stack = list(self.roots)
        while stack:
            p = stack.pop()
            if p in seen_set:
                continue
            fn = self.crate.fns.get(p)
            if fn is None or not thir.body_of(fn):
                continue
            seen_set.add(p)
            seen.append(p)
            for n in thir.fn_refs(fn):
                c = self.bind(callee_of(n))
                if c not in seen_set and c in self.crate.fns:
                    stack.append(c)
        return seen

    def closure_from(self, roots):
        seen, seen_set, stack = [], set(), list(roots)
        while stack:
            p = stack.pop()
            if p in seen_set:
                continue
            fn = self.crate.fns.get(p)
            if fn is None or not thir.body_of(fn):
                continue
            seen_set.add(p)
            seen.append(p)
            for n in thir.fn_refs(fn):
                c = self.bind(callee_of(n))
                if c not in seen_set and c in self.crate.fns:
                    stack.append(c)
        return seen

    def proc_scope(self):
        """Functions reachable from the processor's own callbacks only (no visitor code)."""
        if not hasattr(self, "_proc_scope"):
            self._proc_scope = self.closure_from(sorted(self.proc_over.values()))
        return self._proc_scope

    def callback_scope(self, trait_item):
        return self.closure_from([self.proc_over[trait_item]]) if trait_item in self.proc_over else []

    def written(self, scope=None):
        """{(adt, slot)} that some function of `scope` writes: target of an assignment, receiver of a std
        container mutator, or receiver of a local `&mut self` method that (transitively) writes."""
        scope = scope if scope is not None else self.proc_scope()
        crate = self.crate
        MUT = STD_MUTATORS
        # local mutating functions (fixpoint)
        mutating = set()
        changed = True
        bodies = {p: list(thir.walk(thir.body_of(crate.fns[p]))) for p in scope}
        while changed:
            changed = False
            for p in scope:
                if p in mutating:
                    continue
                for n in bodies[p]:
                    k = n.get("k")
                    if k in ("Assign", "AssignOp") and n["l"].get("k") in ("Deref", "Field", "Index"):
                        mutating.add(p); changed = True; break
                    if k == "Call" and "fn" in n:
                        c = self.bind(callee_of(n))
                        if (c not in crate.fns and n.get("fname") in MUT) or c in mutating:
                            mutating.add(p); changed = True; break
        out = {}
        for p in scope:
            a = self.an.fa(p)
            if a is None:
                continue
            for n in bodies[p]:
                k = n.get("k")
                orig = None
                if k in ("Assign", "AssignOp") and n["l"].get("k") in ("Deref", "Field", "Index"):
                    orig = a.origins(n["l"])
                elif k == "Call" and "fn" in n and n["args"]:
                    c = self.bind(callee_of(n))
                    if (c not in crate.fns and n.get("fname") in MUT) or c in mutating:
                        orig = a.origins(n["args"][0])
                if orig:
                    for o in orig:
                        if o[0] != "#param":
                            out.setdefault(o, []).append((p, n.get("ln")))
        return out

    def touched(self, qualifies):
        """{(adt, slot): [(fn path, callee, line)]} over the whole scope."""
        out = {}
        ncalls = 0
        for p in self.scope:
            a = self.an.fa(p)
            if a is None:
                continue
            for call, orig in a.touches(lambda n: qualifies(self.bind(callee_of(n)), n)):
                ncalls += 1
                for o in orig:
                    if o[0] == "#param":
                        continue
                    out.setdefault(o, []).append((p, callee_of(call), call.get("ln")))
        self.qualifying_calls = ncalls
        return out

use crate::items::Cx;
use crate::json::J;
use rustc_hir::def_id::{DefId, LocalDefId};
use rustc_middle::thir::{self, ExprId, ExprKind, Pat, PatKind, StmtKind, Thir};
use rustc_middle::ty::{self, Ty, TypingEnv};

fn var_id(cx: &Cx<'_>, id: thir::LocalVarId) -> (String, String) {
    let h = id.0;
    let name = cx.tcx.hir_name(h).to_string();
    (format!("{}#{}", name, h.local_id.as_u32()), name)
}

pub fn dump_body<'tcx>(cx: &mut Cx<'tcx>, ld: LocalDefId) -> J {
    let tcx = cx.tcx;
    let (steal, root) = match tcx.thir_body(ld) {
        Ok(x) => x,
        Err(_) => return J::Null,
    };
    let thir = steal.borrow();
    let d = D { thir: &thir, owner: ld };
    let mut params = vec![];
    for p in thir.params.iter() {
        let mut o = vec![("t", J::Int(cx.ty(p.ty) as i64))];
        if let Some(pat) = &p.pat {
            o.push(("pat", d.pat(cx, pat)));
        }
        if p.self_kind.is_some() {
            o.push(("self", J::Bool(true)));
        }
        params.push(J::Obj(o));
    }
    let body = d.expr(cx, root);
    J::Obj(vec![("params", J::Arr(params)), ("body", body)])
}

struct D<'a, 'tcx> {
    thir: &'a Thir<'tcx>,
    owner: LocalDefId,
}

impl<'a, 'tcx> D<'a, 'tcx> {
    fn pat(&self, cx: &mut Cx<'tcx>, p: &Pat<'tcx>) -> J {
        let mut o: Vec<(&'static str, J)> = vec![];
        match &p.kind {
            PatKind::Missing | PatKind::Wild => o.push(("k", J::s("Wild"))),
            PatKind::Binding { var, subpattern, mode, .. } => {
                let (id, name) = var_id(cx, *var);
                o.push(("k", J::s("Bind")));
                o.push(("var", J::s(id)));
                o.push(("name", J::s(name)));
                o.push(("t", J::Int(cx.ty(p.ty) as i64)));
                let byref = !matches!(mode.0, rustc_hir::ByRef::No);
                if byref {
                    o.push(("byref", J::Bool(true)));
                }
                if let Some(sp) = subpattern {
                    o.push(("sub", self.pat(cx, sp)));
                }
            }
            PatKind::Variant { adt_def, variant_index, subpatterns, .. } => {
                o.push(("k", J::s("Variant")));
                o.push(("adt", J::s(cx.path(adt_def.did()))));
                let v = adt_def.variant(*variant_index);
                o.push(("variant", J::s(v.name.to_string())));
                let subs: Vec<J> = subpatterns
                    .iter()
                    .map(|fp| {
                        J::Obj(vec![
                            ("f", J::s(v.fields[fp.field].name.to_string())),
                            ("p", self.pat(cx, &fp.pattern)),
                        ])
                    })
                    .collect();
                o.push(("subs", J::Arr(subs)));
            }
            PatKind::Leaf { subpatterns } => {
                o.push(("k", J::s("Leaf")));
                o.push(("t", J::Int(cx.ty(p.ty) as i64)));
                let names: Option<Vec<String>> = match p.ty.kind() {
                    ty::TyKind::Adt(def, _) if !def.is_enum() => {
                        o.push(("adt", J::s(cx.path(def.did()))));
                        Some(def.non_enum_variant().fields.iter().map(|f| f.name.to_string()).collect())
                    }
                    _ => None,
                };
                let subs: Vec<J> = subpatterns
                    .iter()
                    .map(|fp| {
                        let n = match &names {
                            Some(ns) => ns[fp.field.as_usize()].clone(),
                            None => fp.field.as_usize().to_string(),
                        };
                        J::Obj(vec![("f", J::s(n)), ("p", self.pat(cx, &fp.pattern))])
                    })
                    .collect();
                o.push(("subs", J::Arr(subs)));
            }
            PatKind::Deref { subpattern, .. } | PatKind::DerefPattern { subpattern, .. } => {
                o.push(("k", J::s("Deref")));
                o.push(("sub", self.pat(cx, subpattern)));
            }
            PatKind::Constant { value } => {
                o.push(("k", J::s("Const")));
                o.push(("v", J::s(format!("{}", value))));
                if let Some(si) = value.try_to_leaf() {
                    o.push(("bits", J::s(format!("{}", si.to_bits_unchecked()))));
                }
            }
            PatKind::Range(r) => {
                o.push(("k", J::s("Range")));
                let b = |x: &thir::PatRangeBoundary<'tcx>| -> J {
                    match x {
                        thir::PatRangeBoundary::Finite(v) => match &***v {
                            ty::ValTreeKind::Leaf(si) => J::s(format!("{}", si.to_bits_unchecked())),
                            _ => J::s("?"),
                        },
                        thir::PatRangeBoundary::NegInfinity => J::s("-inf"),
                        thir::PatRangeBoundary::PosInfinity => J::s("+inf"),
                    }
                };
                o.push(("lo", b(&r.lo)));
                o.push(("hi", b(&r.hi)));
                o.push(("incl", J::Bool(matches!(r.end, rustc_hir::RangeEnd::Included))));
            }
            PatKind::Slice { prefix, slice, suffix } | PatKind::Array { prefix, slice, suffix } => {
                o.push(("k", J::s("Slice")));
                let mut v = vec![];
                for x in prefix.iter() {
                    v.push(self.pat(cx, x));
                }
                if let Some(x) = slice {
                    v.push(self.pat(cx, x));
                }
                for x in suffix.iter() {
                    v.push(self.pat(cx, x));
                }
                o.push(("subs", J::Arr(v)));
                o.push(("np", J::Int(prefix.len() as i64)));
                o.push(("rest", J::Bool(slice.is_some())));
            }
            PatKind::Or { pats } => {
                o.push(("k", J::s("Or")));
                o.push(("subs", J::Arr(pats.iter().map(|x| self.pat(cx, x)).collect())));
            }
            PatKind::Guard { subpattern, condition } => {
                o.push(("k", J::s("Guard")));
                o.push(("sub", self.pat(cx, subpattern)));
                o.push(("cond", self.expr(cx, *condition)));
            }
            PatKind::Never => o.push(("k", J::s("Never"))),
            PatKind::Error(_) => o.push(("k", J::s("Error"))),
        }
        J::Obj(o)
    }

    fn exprs(&self, cx: &mut Cx<'tcx>, ids: &[ExprId]) -> J {
        J::Arr(ids.iter().map(|e| self.expr(cx, *e)).collect())
    }

    fn callee(&self, cx: &mut Cx<'tcx>, fn_ty: Ty<'tcx>, o: &mut Vec<(&'static str, J)>) -> bool {
        let tcx = cx.tcx;
        if let ty::TyKind::FnDef(did, args) = *fn_ty.kind() {
            let did: DefId = did.into();
            o.push(("fn", J::s(cx.path(did))));
            o.push(("fname", J::s(tcx.item_name(did).to_string())));
            o.push(("gargs", cx.generic_tys(args)));
            // trait method? record trait + try to resolve to the impl method
            if let Some(ai) = tcx.opt_associated_item(did) {
                let parent = tcx.parent(did);
                if let rustc_hir::def::DefKind::Trait = tcx.def_kind(parent) {
                    o.push(("trait", J::s(cx.path(parent))));
                    let _ = ai;
                    let env = TypingEnv::post_analysis(tcx, self.owner.to_def_id());
                    if let Ok(Some(inst)) = ty::Instance::try_resolve(tcx, env, did, args) {
                        let rd = inst.def_id();
                        if rd != did {
                            o.push(("resolved", J::s(cx.path(rd))));
                        }
                    }
                }
            }
            true
        } else {
            false
        }
    }

    fn expr(&self, cx: &mut Cx<'tcx>, id: ExprId) -> J {
        let e = &self.thir[id];
        // transparent wrappers: skip to keep the tree small
        match &e.kind {
            ExprKind::Scope { value, .. } => return self.expr(cx, *value),
            ExprKind::Use { source } | ExprKind::NeverToAny { source } => return self.expr(cx, *source),
            ExprKind::PlaceTypeAscription { source, .. } | ExprKind::ValueTypeAscription { source, .. } => {
                return self.expr(cx, *source)
            }
            _ => {}
        }
        let mut o: Vec<(&'static str, J)> = vec![];
        let t = cx.ty(e.ty);
        let line = cx.line(e.span);
        macro_rules! k {
            ($s:expr) => {
                o.push(("k", J::s($s)))
            };
        }
        match &e.kind {
            ExprKind::Scope { .. }
            | ExprKind::Use { .. }
            | ExprKind::NeverToAny { .. }
            | ExprKind::PlaceTypeAscription { .. }
            | ExprKind::ValueTypeAscription { .. } => unreachable!(),
            ExprKind::If { cond, then, else_opt, .. } => {
                k!("If");
                o.push(("cond", self.expr(cx, *cond)));
                o.push(("then", self.expr(cx, *then)));
                if let Some(x) = else_opt {
                    o.push(("else", self.expr(cx, *x)));
                }
            }
            ExprKind::Call { ty, fun, args, from_hir_call, .. } => {
                k!("Call");
                if !self.callee(cx, *ty, &mut o) {
                    o.push(("fun", self.expr(cx, *fun)));
                }
                if !*from_hir_call {
                    o.push(("op", J::Bool(true)));
                }
                o.push(("args", self.exprs(cx, args)));
            }
            ExprKind::ByUse { expr, .. } => {
                k!("ByUse");
                o.push(("e", self.expr(cx, *expr)));
            }
            ExprKind::Deref { arg } => {
                k!("Deref");
                o.push(("e", self.expr(cx, *arg)));
            }
            ExprKind::Binary { op, lhs, rhs } => {
                k!("Binary");
                o.push(("op", J::s(format!("{:?}", op))));
                o.push(("l", self.expr(cx, *lhs)));
                o.push(("r", self.expr(cx, *rhs)));
            }
            ExprKind::LogicalOp { op, lhs, rhs } => {
                k!("Logical");
                o.push(("op", J::s(format!("{:?}", op))));
                o.push(("l", self.expr(cx, *lhs)));
                o.push(("r", self.expr(cx, *rhs)));
            }
            ExprKind::Unary { op, arg } => {
                k!("Unary");
                o.push(("op", J::s(format!("{:?}", op))));
                o.push(("e", self.expr(cx, *arg)));
            }
            ExprKind::Cast { source } => {
                k!("Cast");
                o.push(("e", self.expr(cx, *source)));
            }
            ExprKind::PointerCoercion { source, .. } => {
                k!("Coerce");
                o.push(("e", self.expr(cx, *source)));
            }
            ExprKind::Loop { body } => {
                k!("Loop");
                o.push(("body", self.expr(cx, *body)));
            }
            ExprKind::LoopMatch { .. } => k!("LoopMatch"),
            ExprKind::Let { expr, pat } => {
                k!("Let");
                o.push(("pat", self.pat(cx, pat)));
                o.push(("e", self.expr(cx, *expr)));
            }
            ExprKind::Match { scrutinee, arms, match_source } => {
                k!("Match");
                o.push(("src", J::s(format!("{:?}", match_source))));
                o.push(("scrut", self.expr(cx, *scrutinee)));
                let mut av = vec![];
                for a in arms.iter() {
                    let arm = &self.thir[*a];
                    let mut ao = vec![("pat", self.pat(cx, &arm.pattern))];
                    if let Some(g) = arm.guard {
                        ao.push(("guard", self.expr(cx, g)));
                    }
                    ao.push(("body", self.expr(cx, arm.body)));
                    ao.push(("l", J::Int(cx.line(arm.span))));
                    av.push(J::Obj(ao));
                }
                o.push(("arms", J::Arr(av)));
            }
            ExprKind::Block { block } => {
                k!("Block");
                let b = &self.thir[*block];
                let mut sv = vec![];
                for s in b.stmts.iter() {
                    match &self.thir[*s].kind {
                        StmtKind::Expr { expr, .. } => sv.push(self.expr(cx, *expr)),
                        StmtKind::Let { pattern, initializer, else_block, span, .. } => {
                            let mut lo = vec![("k", J::s("LetStmt")), ("pat", self.pat(cx, pattern))];
                            if let Some(i) = initializer {
                                lo.push(("init", self.expr(cx, *i)));
                            }
                            if let Some(eb) = else_block {
                                // render else block as a Block expr
                                let bb = &self.thir[*eb];
                                let mut ev = vec![];
                                for s2 in bb.stmts.iter() {
                                    if let StmtKind::Expr { expr, .. } = &self.thir[*s2].kind {
                                        ev.push(self.expr(cx, *expr));
                                    }
                                }
                                if let Some(x) = bb.expr {
                                    ev.push(self.expr(cx, x));
                                }
                                lo.push(("else", J::Arr(ev)));
                            }
                            lo.push(("l", J::Int(cx.line(*span))));
                            sv.push(J::Obj(lo));
                        }
                    }
                }
                o.push(("stmts", J::Arr(sv)));
                if let Some(x) = b.expr {
                    o.push(("tail", self.expr(cx, x)));
                }
            }
            ExprKind::Assign { lhs, rhs } => {
                k!("Assign");
                o.push(("l", self.expr(cx, *lhs)));
                o.push(("r", self.expr(cx, *rhs)));
            }
            ExprKind::AssignOp { op, lhs, rhs } => {
                k!("AssignOp");
                o.push(("op", J::s(format!("{:?}", op))));
                o.push(("l", self.expr(cx, *lhs)));
                o.push(("r", self.expr(cx, *rhs)));
            }
            ExprKind::Field { lhs, variant_index, name } => {
                k!("Field");
                let lty = self.thir[*lhs].ty;
                match lty.kind() {
                    ty::TyKind::Adt(def, _) => {
                        let v = def.variant(*variant_index);
                        o.push(("adt", J::s(cx.path(def.did()))));
                        o.push(("f", J::s(v.fields[*name].name.to_string())));
                    }
                    _ => {
                        o.push(("f", J::s(name.as_usize().to_string())));
                    }
                }
                o.push(("e", self.expr(cx, *lhs)));
            }
            ExprKind::Index { lhs, index } => {
                k!("Index");
                o.push(("e", self.expr(cx, *lhs)));
                o.push(("i", self.expr(cx, *index)));
            }
            ExprKind::VarRef { id } => {
                k!("Var");
                let (vid, name) = var_id(cx, *id);
                o.push(("var", J::s(vid)));
                o.push(("name", J::s(name)));
            }
            ExprKind::UpvarRef { var_hir_id, .. } => {
                k!("Var");
                let (vid, name) = var_id(cx, *var_hir_id);
                o.push(("var", J::s(vid)));
                o.push(("name", J::s(name)));
                o.push(("up", J::Bool(true)));
            }
            ExprKind::Borrow { borrow_kind, arg } => {
                k!("Borrow");
                let m = matches!(borrow_kind, rustc_middle::mir::BorrowKind::Mut { .. });
                o.push(("mut", J::Bool(m)));
                o.push(("e", self.expr(cx, *arg)));
            }
            ExprKind::RawBorrow { arg, .. } => {
                k!("RawBorrow");
                o.push(("e", self.expr(cx, *arg)));
            }
            ExprKind::Break { value, .. } => {
                k!("Break");
                if let Some(v) = value {
                    o.push(("e", self.expr(cx, *v)));
                }
            }
            ExprKind::Continue { .. } => k!("Continue"),
            ExprKind::ConstContinue { .. } => k!("ConstContinue"),
            ExprKind::Return { value } => {
                k!("Return");
                if let Some(v) = value {
                    o.push(("e", self.expr(cx, *v)));
                }
            }
            ExprKind::Become { value } => {
                k!("Become");
                o.push(("e", self.expr(cx, *value)));
            }
            ExprKind::ConstBlock { .. } => k!("ConstBlock"),
            ExprKind::Repeat { value, .. } => {
                k!("Repeat");
                o.push(("e", self.expr(cx, *value)));
            }
            ExprKind::Array { fields } => {
                k!("Array");
                o.push(("es", self.exprs(cx, fields)));
            }
            ExprKind::Tuple { fields } => {
                k!("Tuple");
                o.push(("es", self.exprs(cx, fields)));
            }
            ExprKind::Adt(adt) => {
                k!("Adt");
                o.push(("adt", J::s(cx.path(adt.adt_def.did()))));
                let v = adt.adt_def.variant(adt.variant_index);
                if adt.adt_def.is_enum() {
                    o.push(("variant", J::s(v.name.to_string())));
                }
                let fs: Vec<J> = adt
                    .fields
                    .iter()
                    .map(|f| J::Obj(vec![("f", J::s(v.fields[f.name].name.to_string())), ("e", self.expr(cx, f.expr))]))
                    .collect();
                o.push(("fields", J::Arr(fs)));
                if let thir::AdtExprBase::Base(fru) = &adt.base {
                    o.push(("base", self.expr(cx, fru.base)));
                }
            }
            ExprKind::PlaceUnwrapUnsafeBinder { source }
            | ExprKind::ValueUnwrapUnsafeBinder { source }
            | ExprKind::WrapUnsafeBinder { source } => {
                k!("Binder");
                o.push(("e", self.expr(cx, *source)));
            }
            ExprKind::Closure(c) => {
                k!("Closure");
                o.push(("def", J::s(cx.path(c.closure_id.to_def_id()))));
                o.push(("body", dump_body(cx, c.closure_id)));
            }
            ExprKind::Literal { lit, neg } => {
                k!("Lit");
                let s = match &lit.node {
                    rustc_ast::LitKind::Str(s, _) => format!("{:?}", s.as_str()),
                    rustc_ast::LitKind::Bool(b) => format!("{}", b),
                    rustc_ast::LitKind::Int(i, _) => format!("{}", i),
                    rustc_ast::LitKind::Char(c) => format!("{:?}", c),
                    other => format!("{:?}", other),
                };
                o.push(("v", J::s(if *neg { format!("-{}", s) } else { s })));
            }
            ExprKind::NonHirLiteral { lit, .. } => {
                k!("Lit");
                o.push(("v", J::s(format!("{:?}", lit))));
            }
            ExprKind::ZstLiteral { .. } => {
                // a function item used as a value (or a unit struct)
                k!("Zst");
                let mut tmp = vec![];
                if self.callee(cx, e.ty, &mut tmp) {
                    o.extend(tmp);
                }
            }
            ExprKind::NamedConst { def_id, .. } => {
                k!("Const");
                o.push(("def", J::s(cx.path(*def_id))));
            }
            ExprKind::ConstParam { .. } => k!("ConstParam"),
            ExprKind::StaticRef { def_id, .. } => {
                k!("Static");
                o.push(("def", J::s(cx.path(*def_id))));
            }
            ExprKind::InlineAsm(_) => k!("Asm"),
            ExprKind::ThreadLocalRef(d) => {
                k!("Static");
                o.push(("def", J::s(cx.path(*d))));
            }
            ExprKind::Yield { value } => {
                k!("Yield");
                o.push(("e", self.expr(cx, *value)));
            }
        }
        o.push(("t", J::Int(t as i64)));
        o.push(("ln", J::Int(line)));
        if e.span.from_expansion() {
            o.push(("x", J::Bool(true)));
        }
        J::Obj(o)
    }
}

use crate::items::Cx;
use crate::json::J;
use rustc_hir::def_id::{DefId, LocalDefId};
use rustc_middle::mir::{
    AggregateKind, Body, Const, Operand, Place, ProjectionElem, Rvalue, StatementKind, TerminatorKind,
};
use rustc_middle::ty::{self, TypingEnv};

fn place_str<'tcx>(cx: &Cx<'tcx>, body: &Body<'tcx>, p: &Place<'tcx>) -> String {
    let tcx = cx.tcx;
    let mut s = format!("{}", p.local.as_usize());
    let mut variant: Option<rustc_abi::VariantIdx> = None;
    for (i, elem) in p.projection.iter().enumerate() {
        s.push('|');
        match elem {
            ProjectionElem::Deref => s.push('*'),
            ProjectionElem::Field(f, _) => {
                let base_ty = Place::ty_from(p.local, &p.projection[..i], body, tcx);
                match base_ty.ty.kind() {
                    ty::TyKind::Adt(def, _) => {
                        let v = match base_ty.variant_index.or(variant) {
                            Some(v) => def.variant(v),
                            None => {
                                if def.is_enum() {
                                    s.push_str(&format!("f:{}", f.as_usize()));
                                    continue;
                                }
                                def.non_enum_variant()
                            }
                        };
                        s.push_str(&format!("f:{}.{}", cx.path(def.did()), v.fields[f].name));
                    }
                    _ => s.push_str(&format!("f:{}", f.as_usize())),
                }
                variant = None;
            }
            ProjectionElem::Downcast(name, v) => {
                variant = Some(v);
                s.push_str(&format!("d:{}", name.map(|n| n.to_string()).unwrap_or_default()));
            }
            ProjectionElem::Index(_) | ProjectionElem::ConstantIndex { .. } | ProjectionElem::Subslice { .. } => {
                s.push('i')
            }
            _ => s.push('?'),
        }
    }
    s
}

fn fn_const<'tcx>(cx: &mut Cx<'tcx>, owner: DefId, c: &Const<'tcx>, o: &mut Vec<(&'static str, J)>) -> bool {
    let tcx = cx.tcx;
    if let ty::TyKind::FnDef(did, args) = *c.ty().kind() {
        let did: DefId = did.into();
        o.push(("fn", J::s(cx.path(did))));
        o.push(("fname", J::s(tcx.item_name(did).to_string())));
        o.push(("gargs", cx.generic_tys(args)));
        if tcx.opt_associated_item(did).is_some() {
            let parent = tcx.parent(did);
            if let rustc_hir::def::DefKind::Trait = tcx.def_kind(parent) {
                o.push(("trait", J::s(cx.path(parent))));
                let env = TypingEnv::post_analysis(tcx, owner);
                if let Ok(Some(inst)) = ty::Instance::try_resolve(tcx, env, did, args) {
                    let rd = inst.def_id();
                    if rd != did {
                        o.push(("resolved", J::s(cx.path(rd))));
                    }
                }
            }
        }
        true
    } else {
        false
    }
}

fn operand<'tcx>(cx: &mut Cx<'tcx>, owner: DefId, body: &Body<'tcx>, op: &Operand<'tcx>) -> J {
    match op {
        Operand::Copy(p) | Operand::Move(p) => J::Obj(vec![("p", J::s(place_str(cx, body, p)))]),
        Operand::Constant(c) => {
            let mut o = vec![];
            if !fn_const(cx, owner, &c.const_, &mut o) {
                let mut s = format!("{}", c.const_);
                if s.len() > 80 {
                    s.truncate(80);
                }
                o.push(("c", J::s(s)));
            }
            J::Obj(o)
        }
        _ => J::Obj(vec![("c", J::s("?"))]),
    }
}

pub fn dump_mir<'tcx>(cx: &mut Cx<'tcx>, ld: LocalDefId) -> J {
    let tcx = cx.tcx;
    let owner = ld.to_def_id();
    if !tcx.is_mir_available(owner) {
        return J::Null;
    }
    let body: &Body<'tcx> = tcx.optimized_mir(owner);
    let mut locals = vec![];
    for (_, d) in body.local_decls.iter_enumerated() {
        locals.push(J::Int(cx.ty(d.ty) as i64));
    }
    let mut names = vec![];
    for vdi in body.var_debug_info.iter() {
        if let rustc_middle::mir::VarDebugInfoContents::Place(p) = &vdi.value {
            names.push(J::Arr(vec![J::s(vdi.name.to_string()), J::s(place_str(cx, body, p))]));
        }
    }
    let mut blocks = vec![];
    for (_, bb) in body.basic_blocks.iter_enumerated() {
        let mut stmts = vec![];
        for st in bb.statements.iter() {
            match &st.kind {
                StatementKind::Assign(b) => {
                    let (place, rv) = &**b;
                    let mut o = vec![("d", J::s(place_str(cx, body, place)))];
                    match rv {
                        Rvalue::Use(op, ..) => {
                            o.push(("rv", J::s("use")));
                            o.push(("ops", J::Arr(vec![operand(cx, owner, body, op)])));
                        }
                        Rvalue::Ref(_, bk, p) => {
                            o.push(("rv", J::s("ref")));
                            o.push(("mut", J::Bool(matches!(bk, rustc_middle::mir::BorrowKind::Mut { .. }))));
                            o.push(("ops", J::Arr(vec![J::Obj(vec![("p", J::s(place_str(cx, body, p)))])])));
                        }
                        Rvalue::RawPtr(_, p) | Rvalue::CopyForDeref(p) => {
                            o.push(("rv", J::s("copy")));
                            o.push(("ops", J::Arr(vec![J::Obj(vec![("p", J::s(place_str(cx, body, p)))])])));
                        }
                        Rvalue::Discriminant(p) => {
                            o.push(("rv", J::s("discr")));
                            let pty = p.ty(body, tcx).ty;
                            if let ty::TyKind::Adt(def, _) = pty.kind() {
                                o.push(("adt", J::s(cx.path(def.did()))));
                                let vs: Vec<J> = def
                                    .discriminants(tcx)
                                    .map(|(vi, d)| J::Arr(vec![J::s(format!("{}", d.val)), J::s(def.variant(vi).name.to_string())]))
                                    .collect();
                                o.push(("variants", J::Arr(vs)));
                            }
                            o.push(("ops", J::Arr(vec![J::Obj(vec![("p", J::s(place_str(cx, body, p)))])])));
                        }
                        Rvalue::Cast(_, op, _) => {
                            o.push(("rv", J::s("cast")));
                            o.push(("ops", J::Arr(vec![operand(cx, owner, body, op)])));
                        }
                        Rvalue::BinaryOp(bop, ops) => {
                            o.push(("rv", J::s(format!("bin:{:?}", bop))));
                            let (a, b2) = &**ops;
                            o.push(("ops", J::Arr(vec![operand(cx, owner, body, a), operand(cx, owner, body, b2)])));
                        }
                        Rvalue::UnaryOp(uop, op) => {
                            o.push(("rv", J::s(format!("un:{:?}", uop))));
                            o.push(("ops", J::Arr(vec![operand(cx, owner, body, op)])));
                        }
                        Rvalue::Aggregate(kind, ops) => {
                            match &**kind {
                                AggregateKind::Adt(did, vi, _, _, _) => {
                                    let def = tcx.adt_def(*did);
                                    o.push(("rv", J::s("adt")));
                                    o.push(("adt", J::s(cx.path(*did))));
                                    o.push(("variant", J::s(def.variant(*vi).name.to_string())));
                                }
                                AggregateKind::Closure(did, _) => {
                                    o.push(("rv", J::s("closure")));
                                    o.push(("def", J::s(cx.path(*did))));
                                }
                                AggregateKind::Tuple => o.push(("rv", J::s("tuple"))),
                                _ => o.push(("rv", J::s("agg"))),
                            }
                            let v: Vec<J> = ops.iter().map(|x| operand(cx, owner, body, x)).collect();
                            o.push(("ops", J::Arr(v)));
                        }
                        _ => {
                            o.push(("rv", J::s("other")));
                        }
                    }
                    o.push(("ln", J::Int(cx.line(st.source_info.span))));
                    stmts.push(J::Obj(o));
                }
                StatementKind::SetDiscriminant { place, .. } => {
                    stmts.push(J::Obj(vec![("d", J::s(place_str(cx, body, place))), ("rv", J::s("setdiscr"))]));
                }
                _ => {}
            }
        }
        let term = bb.terminator();
        let mut t: Vec<(&'static str, J)> = vec![];
        match &term.kind {
            TerminatorKind::Goto { target } => {
                t.push(("k", J::s("goto")));
                t.push(("t", J::Int(target.as_usize() as i64)));
            }
            TerminatorKind::SwitchInt { discr, targets } => {
                t.push(("k", J::s("switch")));
                t.push(("discr", operand(cx, owner, body, discr)));
                let mut tv = vec![];
                for (v, bbx) in targets.iter() {
                    tv.push(J::Arr(vec![J::s(v.to_string()), J::Int(bbx.as_usize() as i64)]));
                }
                t.push(("targets", J::Arr(tv)));
                t.push(("otherwise", J::Int(targets.otherwise().as_usize() as i64)));
            }
            TerminatorKind::Return => t.push(("k", J::s("return"))),
            TerminatorKind::Unreachable => t.push(("k", J::s("unreachable"))),
            TerminatorKind::UnwindResume => t.push(("k", J::s("resume"))),
            TerminatorKind::UnwindTerminate(_) => t.push(("k", J::s("terminate"))),
            TerminatorKind::Drop { place, target, unwind, .. } => {
                t.push(("k", J::s("drop")));
                t.push(("p", J::s(place_str(cx, body, place))));
                t.push(("t", J::Int(target.as_usize() as i64)));
                if let rustc_middle::mir::UnwindAction::Cleanup(b) = unwind {
                    t.push(("u", J::Int(b.as_usize() as i64)));
                }
            }
            TerminatorKind::Call { func, args, destination, target, unwind, .. } => {
                t.push(("k", J::s("call")));
                match func {
                    Operand::Constant(c) => {
                        if !fn_const(cx, owner, &c.const_, &mut t) {
                            t.push(("indirect", J::Bool(true)));
                        }
                    }
                    Operand::Copy(p) | Operand::Move(p) => {
                        t.push(("indirect", J::Bool(true)));
                        t.push(("fp", J::s(place_str(cx, body, p))));
                    }
                    _ => t.push(("indirect", J::Bool(true))),
                }
                let av: Vec<J> = args.iter().map(|a| operand(cx, owner, body, &a.node)).collect();
                t.push(("args", J::Arr(av)));
                t.push(("d", J::s(place_str(cx, body, destination))));
                if let Some(tb) = target {
                    t.push(("t", J::Int(tb.as_usize() as i64)));
                }
                if let rustc_middle::mir::UnwindAction::Cleanup(b) = unwind {
                    t.push(("u", J::Int(b.as_usize() as i64)));
                }
            }
            TerminatorKind::Assert { target, unwind, .. } => {
                t.push(("k", J::s("assert")));
                t.push(("t", J::Int(target.as_usize() as i64)));
                if let rustc_middle::mir::UnwindAction::Cleanup(b) = unwind {
                    t.push(("u", J::Int(b.as_usize() as i64)));
                }
            }
            TerminatorKind::FalseEdge { real_target, .. } => {
                t.push(("k", J::s("goto")));
                t.push(("t", J::Int(real_target.as_usize() as i64)));
            }
            TerminatorKind::FalseUnwind { real_target, .. } => {
                t.push(("k", J::s("goto")));
                t.push(("t", J::Int(real_target.as_usize() as i64)));
            }
            _ => t.push(("k", J::s("other"))),
        }
        t.push(("ln", J::Int(cx.line(term.source_info.span))));
        let mut bo = vec![("s", J::Arr(stmts)), ("term", J::Obj(t))];
        if bb.is_cleanup {
            bo.push(("cleanup", J::Bool(true)));
        }
        blocks.push(J::Obj(bo));
    }
    J::Obj(vec![
        ("argc", J::Int(body.arg_count as i64)),
        ("locals", J::Arr(locals)),
        ("names", J::Arr(names)),
        ("blocks", J::Arr(blocks)),
    ])
}

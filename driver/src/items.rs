use crate::json::J;
use rustc_hir::def::DefKind;
use rustc_hir::def_id::{DefId, LocalDefId, LOCAL_CRATE};
use rustc_middle::ty::{self, Ty, TyCtxt};
use rustc_span::Span;
use std::collections::HashMap;

pub struct Cx<'tcx> {
    pub tcx: TyCtxt<'tcx>,
    pub types: Vec<J>,
    pub type_ids: HashMap<Ty<'tcx>, usize>,
    pub ext_adts: Vec<DefId>,
    pub ext_seen: std::collections::HashSet<DefId>,
}

impl<'tcx> Cx<'tcx> {
    pub fn path(&self, d: DefId) -> String {
        self.tcx.def_path_str(d)
    }

    pub fn loc(&self, sp: Span) -> (String, i64, i64, bool) {
        let exp = sp.from_expansion();
        let sp = sp.source_callsite();
        let sm = self.tcx.sess.source_map();
        let lo = sm.lookup_char_pos(sp.lo());
        let hi = sm.lookup_char_pos(sp.hi());
        let file = match &lo.file.name {
            rustc_span::FileName::Real(r) => match r.local_path() {
                Some(p) => p.to_string_lossy().to_string(),
                None => format!("{:?}", r),
            },
            other => format!("{:?}", other),
        };
        (file, lo.line as i64, hi.line as i64, exp)
    }

    pub fn line(&self, sp: Span) -> i64 {
        let sp = sp.source_callsite();
        self.tcx.sess.source_map().lookup_char_pos(sp.lo()).line as i64
    }

    pub fn generic_tys(&mut self, args: ty::GenericArgsRef<'tcx>) -> J {
        let mut v = vec![];
        for a in args.iter() {
            if let Some(t) = a.as_type() {
                v.push(J::Int(self.ty(t) as i64));
            }
        }
        J::Arr(v)
    }

    pub fn ty(&mut self, t: Ty<'tcx>) -> usize {
        if let Some(i) = self.type_ids.get(&t) {
            return *i;
        }
        // reserve slot first (recursive types cannot occur in a Ty tree, but keep ids stable)
        let tree = self.ty_tree(t);
        let i = self.types.len();
        self.types.push(tree);
        self.type_ids.insert(t, i);
        i
    }

    fn ty_tree(&mut self, t: Ty<'tcx>) -> J {
        use rustc_type_ir::TyKind::*;
        let s = format!("{}", t);
        match *t.kind() {
            Bool | Char | Int(_) | Uint(_) | Float(_) | Str | Never => J::Obj(vec![("prim", J::s(s))]),
            Adt(def, args) => {
                let did = def.did();
                if !did.is_local() && self.ext_seen.insert(did) {
                    self.ext_adts.push(did);
                }
                let a = self.generic_tys(args);
                J::Obj(vec![("adt", J::s(self.path(did))), ("args", a), ("s", J::s(s))])
            }
            Ref(_, inner, m) => {
                let i = self.ty(inner);
                J::Obj(vec![("ref", J::Int(i as i64)), ("mut", J::Bool(m.is_mut()))])
            }
            RawPtr(inner, m) => {
                let i = self.ty(inner);
                J::Obj(vec![("ptr", J::Int(i as i64)), ("mut", J::Bool(m.is_mut()))])
            }
            Slice(inner) | Array(inner, _) => {
                let i = self.ty(inner);
                J::Obj(vec![("slice", J::Int(i as i64))])
            }
            Tuple(tys) => {
                let v: Vec<J> = tys.iter().map(|x| J::Int(self.ty(x) as i64)).collect();
                J::Obj(vec![("tuple", J::Arr(v))])
            }
            Param(p) => J::Obj(vec![("param", J::s(p.name.to_string()))]),
            FnDef(did, args) => {
                let did: DefId = did.into();
                let a = self.generic_tys(args);
                J::Obj(vec![("fndef", J::s(self.path(did))), ("args", a)])
            }
            Closure(did, _) => {
                let did: DefId = did.into();
                J::Obj(vec![("closure", J::s(self.path(did)))])
            }
            FnPtr(..) => J::Obj(vec![("fnptr", J::s(s))]),
            Dynamic(..) => J::Obj(vec![("dyn", J::s(s))]),
            Alias(..) => J::Obj(vec![("alias", J::s(s))]),
            _ => J::Obj(vec![("other", J::s(s))]),
        }
    }
}

fn vis_str(tcx: TyCtxt<'_>, d: DefId) -> String {
    match tcx.visibility(d) {
        ty::Visibility::Public => "pub".to_string(),
        ty::Visibility::Restricted(m) => {
            if m.is_crate_root() {
                "crate".to_string()
            } else {
                "restricted".to_string()
            }
        }
    }
}

fn attr_strings(tcx: TyCtxt<'_>, d: LocalDefId) -> J {
    // Derive-helper attributes (`#[serde(..)]`) are not lowered to HIR, so the attribute block that
    // immediately precedes the item/field/variant is read from the source file: contiguous lines above
    // the item that start with `#[`, are doc comments, or belong to a multi-line `#[ .. ]`.
    let sm = tcx.sess.source_map();
    let sp = tcx.def_span(d.to_def_id());
    if sp.from_expansion() {
        return J::Arr(vec![]);
    }
    let lo = sm.lookup_char_pos(sp.lo());
    let file = lo.file.clone();
    let mut idx = lo.line as isize - 2; // 0-based index of the line above
    let mut out: Vec<String> = vec![];
    let mut in_multi = false;
    let mut cur: Vec<String> = vec![];
    while idx >= 0 {
        let line = match file.get_line(idx as usize) {
            Some(l) => l.to_string(),
            None => break,
        };
        let t = line.trim().to_string();
        if t.starts_with("#[") {
            cur.push(t.clone());
            cur.reverse();
            out.push(cur.join(" "));
            cur = vec![];
            in_multi = false;
        } else if in_multi {
            cur.push(t.clone());
        } else if t.starts_with("//") {
            // comment / doc comment: skip but keep scanning
        } else if t.ends_with(")]") || t == "]" {
            in_multi = true;
            cur.push(t.clone());
        } else {
            break;
        }
        idx -= 1;
    }
    out.reverse();
    J::Arr(out.into_iter().map(J::s).collect())
}

fn dump_adt<'tcx>(cx: &mut Cx<'tcx>, did: DefId, local: bool) -> J {
    let tcx = cx.tcx;
    let def = tcx.adt_def(did);
    let mut variants = vec![];
    for v in def.variants().iter() {
        let mut fields = vec![];
        for f in v.fields.iter() {
            let fty = tcx.type_of(f.did).instantiate_identity().skip_norm_wip();
            let tid = cx.ty(fty);
            let mut o = vec![
                ("name", J::s(f.name.to_string())),
                ("ty", J::Int(tid as i64)),
                ("tys", J::s(format!("{}", fty))),
            ];
            if local {
                o.push(("vis", J::s(vis_str(tcx, f.did))));
                if let Some(l) = f.did.as_local() {
                    o.push(("attrs", attr_strings(tcx, l)));
                }
            }
            fields.push(J::Obj(o));
        }
        let mut vo = vec![("name", J::s(v.name.to_string())), ("fields", J::Arr(fields))];
        if local && def.is_enum() {
            if let Some(l) = v.def_id.as_local() {
                vo.push(("attrs", attr_strings(tcx, l)));
            }
        }
        variants.push(J::Obj(vo));
    }
    let kind = if def.is_enum() {
        "enum"
    } else if def.is_union() {
        "union"
    } else {
        "struct"
    };
    let mut o = vec![("path", J::s(cx.path(did))), ("kind", J::s(kind)), ("variants", J::Arr(variants))];
    if let Some(l) = did.as_local() {
        let (file, line, _, _) = cx.loc(tcx.def_span(did));
        o.push(("file", J::s(file)));
        o.push(("line", J::Int(line)));
        o.push(("attrs", attr_strings(tcx, l)));
        o.push(("vis", J::s(vis_str(tcx, did))));
    }
    J::Obj(o)
}

fn fn_sig_json<'tcx>(cx: &mut Cx<'tcx>, did: DefId) -> J {
    let sig = cx.tcx.fn_sig(did).instantiate_identity().skip_norm_wip().skip_binder();
    let ins: Vec<J> = sig.inputs().iter().map(|t| J::Int(cx.ty(*t) as i64)).collect();
    let out = cx.ty(sig.output());
    J::Obj(vec![("inputs", J::Arr(ins)), ("output", J::Int(out as i64))])
}

pub fn dump_crate<'tcx>(tcx: TyCtxt<'tcx>, krate: &str) -> String {
    let _g1 = ty::print::NoTrimmedGuard::new();
    let _g2 = ty::print::NoVisibleGuard::new();
    let mut cx = Cx {
        tcx,
        types: vec![],
        type_ids: HashMap::new(),
        ext_adts: vec![],
        ext_seen: Default::default(),
    };

    let mut adts = vec![];
    let mut traits = vec![];
    let mut impls = vec![];
    let mut fns = vec![];
    let mut consts = vec![];

    let items = tcx.hir_crate_items(());
    for ld in items.definitions() {
        let did = ld.to_def_id();
        match tcx.def_kind(did) {
            DefKind::Struct | DefKind::Enum | DefKind::Union => {
                adts.push(dump_adt(&mut cx, did, true));
            }
            DefKind::Trait => {
                let mut its = vec![];
                for it in tcx.associated_items(did).in_definition_order() {
                    if it.is_fn() {
                        its.push(J::Obj(vec![
                            ("name", J::s(it.name().to_string())),
                            ("path", J::s(cx.path(it.def_id))),
                            ("default", J::Bool(it.defaultness(tcx).has_value())),
                        ]));
                    }
                }
                let (file, line, _, _) = cx.loc(tcx.def_span(did));
                traits.push(J::Obj(vec![
                    ("path", J::s(cx.path(did))),
                    ("items", J::Arr(its)),
                    ("file", J::s(file)),
                    ("line", J::Int(line)),
                ]));
            }
            DefKind::Impl { of_trait } => {
                let self_ty = tcx.type_of(did).instantiate_identity().skip_norm_wip();
                let st = cx.ty(self_ty);
                let mut o = vec![("self", J::Int(st as i64)), ("selfs", J::s(format!("{}", self_ty)))];
                if of_trait {
                    let tr = tcx.impl_trait_ref(did).instantiate_identity().skip_norm_wip();
                    o.push(("trait", J::s(cx.path(tr.def_id))));
                    o.push(("trait_args", cx.generic_tys(tr.args)));
                    o.push(("traits", J::s(format!("{}", tr))));
                }
                let mut its = vec![];
                for it in tcx.associated_items(did).in_definition_order() {
                    if it.is_fn() {
                        let mut io = vec![("name", J::s(it.name().to_string())), ("path", J::s(cx.path(it.def_id)))];
                        if let Some(t) = it.trait_item_def_id() {
                            io.push(("trait_item", J::s(cx.path(t))));
                        }
                        its.push(J::Obj(io));
                    }
                }
                o.push(("items", J::Arr(its)));
                let (file, line, _, exp) = cx.loc(tcx.def_span(did));
                o.push(("file", J::s(file)));
                o.push(("line", J::Int(line)));
                o.push(("x", J::Bool(exp)));
                impls.push(J::Obj(o));
            }
            _ => {}
        }
    }

    for ld in tcx.hir_body_owners() {
        let did = ld.to_def_id();
        let kind = tcx.def_kind(did);
        match kind {
            DefKind::Fn | DefKind::AssocFn => {
                let mut o = vec![("path", J::s(cx.path(did))), ("name", J::s(tcx.item_name(did).to_string()))];
                let (file, line, end, exp) = cx.loc(tcx.def_span(did));
                o.push(("file", J::s(file)));
                o.push(("line", J::Int(line)));
                let body_span = tcx.hir_span_with_body(tcx.local_def_id_to_hir_id(ld));
                let (_, _, bend, _) = cx.loc(body_span);
                o.push(("end", J::Int(std::cmp::max(end, bend))));
                o.push(("x", J::Bool(exp)));
                o.push(("vis", J::s(vis_str(tcx, did))));
                o.push(("sig", fn_sig_json(&mut cx, did)));
                if let Some(ai) = tcx.opt_associated_item(did) {
                    let parent = tcx.parent(did);
                    match tcx.def_kind(parent) {
                        DefKind::Impl { of_trait } => {
                            let self_ty = tcx.type_of(parent).instantiate_identity().skip_norm_wip();
                            o.push(("self_ty", J::Int(cx.ty(self_ty) as i64)));
                            o.push(("self_tys", J::s(format!("{}", self_ty))));
                            if of_trait {
                                let tr = tcx.impl_trait_ref(parent).instantiate_identity().skip_norm_wip();
                                o.push(("impl_trait", J::s(cx.path(tr.def_id))));
                                o.push(("impl_trait_args", cx.generic_tys(tr.args)));
                            }
                            if let Some(t) = ai.trait_item_def_id() {
                                o.push(("trait_item", J::s(cx.path(t))));
                            }
                        }
                        DefKind::Trait => {
                            o.push(("in_trait", J::s(cx.path(parent))));
                        }
                        _ => {}
                    }
                }
                o.push(("thir", crate::thir_dump::dump_body(&mut cx, ld)));
                o.push(("mir", crate::mir_dump::dump_mir(&mut cx, ld)));
                fns.push(J::Obj(o));
            }
            DefKind::Closure => {
                let mut o = vec![("path", J::s(cx.path(did))), ("closure", J::Bool(true))];
                let (file, line, end, exp) = cx.loc(tcx.def_span(did));
                o.push(("file", J::s(file)));
                o.push(("line", J::Int(line)));
                o.push(("end", J::Int(end)));
                o.push(("x", J::Bool(exp)));
                o.push(("mir", crate::mir_dump::dump_mir(&mut cx, ld)));
                fns.push(J::Obj(o));
            }
            DefKind::Const { .. } | DefKind::Static { .. } | DefKind::AssocConst { .. } => {
                let mut o = vec![("path", J::s(cx.path(did))), ("kind", J::s(format!("{:?}", kind)))];
                let (file, line, _, _) = cx.loc(tcx.def_span(did));
                o.push(("file", J::s(file)));
                o.push(("line", J::Int(line)));
                let t = tcx.type_of(did).instantiate_identity().skip_norm_wip();
                o.push(("ty", J::Int(cx.ty(t) as i64)));
                o.push(("thir", crate::thir_dump::dump_body(&mut cx, ld)));
                consts.push(J::Obj(o));
            }
            _ => {}
        }
    }

    // external ADTs referenced by local types: variants/fields + inherent methods with signatures
    let mut ext = vec![];
    let mut i = 0;
    while i < cx.ext_adts.len() {
        let did = cx.ext_adts[i];
        i += 1;
        let cname = tcx.crate_name(did.krate).to_string();
        if cname != "full_moon" {
            continue;
        }
        let adt = dump_adt(&mut cx, did, false);
        let mut methods = vec![];
        for imp in tcx.inherent_impls(did).iter() {
            for it in tcx.associated_items(*imp).in_definition_order() {
                if it.is_fn() && tcx.visibility(it.def_id).is_public() {
                    let sig = fn_sig_json(&mut cx, it.def_id);
                    let s = tcx.fn_sig(it.def_id).instantiate_identity().skip_norm_wip().skip_binder();
                    methods.push(J::Obj(vec![
                        ("name", J::s(it.name().to_string())),
                        ("path", J::s(cx.path(it.def_id))),
                        ("sig", sig),
                        ("out", J::s(format!("{}", s.output()))),
                    ]));
                }
            }
        }
        ext.push(J::Obj(vec![("adt", adt), ("methods", J::Arr(methods))]));
    }

    let types = std::mem::take(&mut cx.types);
    let root = J::Obj(vec![
        ("crate", J::s(krate)),
        ("is_local_crate", J::Bool(LOCAL_CRATE == LOCAL_CRATE)),
        ("adts", J::Arr(adts)),
        ("traits", J::Arr(traits)),
        ("impls", J::Arr(impls)),
        ("fns", J::Arr(fns)),
        ("consts", J::Arr(consts)),
        ("ext", J::Arr(ext)),
        ("types", J::Arr(types)),
    ]);
    let mut s = String::with_capacity(64 << 20);
    root.write(&mut s);
    s
}

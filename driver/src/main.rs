// dlfacts: a rustc_private driver that dumps, for the crate being compiled,
// JSON facts (ADTs, impls, traits, typed THIR bodies with resolved callees,
// MIR control-flow graphs). Used as RUSTC_WORKSPACE_WRAPPER under
// `cargo +nightly check`. Output: $DLFACTS_OUT/<crate_name>.json (one write).
#![feature(rustc_private)]
#![allow(clippy::all)]

extern crate rustc_abi;
extern crate rustc_ast;
extern crate rustc_driver;
extern crate rustc_hir;
extern crate rustc_interface;
extern crate rustc_middle;
extern crate rustc_session;
extern crate rustc_span;
extern crate rustc_type_ir;

mod json;
mod thir_dump;
mod mir_dump;
mod items;

use rustc_driver::{Callbacks, Compilation};
use rustc_interface::interface;
use rustc_middle::ty::TyCtxt;

struct Cb;

impl Callbacks for Cb {
    fn config(&mut self, config: &mut interface::Config) {
        config.opts.unstable_opts.no_steal_thir = true;
        config.opts.unstable_opts.mir_opt_level = Some(0);
    }
    fn after_analysis<'tcx>(&mut self, _c: &interface::Compiler, tcx: TyCtxt<'tcx>) -> Compilation {
        let out_dir = match std::env::var("DLFACTS_OUT") {
            Ok(d) => d,
            Err(_) => return Compilation::Continue,
        };
        let krate = tcx.crate_name(rustc_span::def_id::LOCAL_CRATE).to_string();
        // only workspace members reach this wrapper; skip build scripts
        if krate == "build_script_build" {
            return Compilation::Continue;
        }
        let s = items::dump_crate(tcx, &krate);
        let path = format!("{}/{}.json", out_dir, krate);
        let tmp = format!("{}.tmp{}", path, std::process::id());
        std::fs::write(&tmp, s).expect("write facts");
        std::fs::rename(&tmp, &path).expect("rename facts");
        Compilation::Continue
    }
}

fn main() {
    // RUSTC_WORKSPACE_WRAPPER: argv[1] is the path of the real rustc; drop it.
    let mut args: Vec<String> = std::env::args().collect();
    if args.len() > 1 && (args[1].ends_with("rustc") || args[1].contains("/rustc")) {
        args.remove(1);
    }
    rustc_driver::run_compiler(&args, &mut Cb);
}

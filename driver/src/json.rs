// Minimal JSON value + writer (no external crates available to a rustc_private driver).
pub enum J {
    Null,
    Bool(bool),
    Int(i64),
    Str(String),
    Arr(Vec<J>),
    Obj(Vec<(&'static str, J)>),
}

impl J {
    pub fn s<T: Into<String>>(x: T) -> J {
        J::Str(x.into())
    }
    pub fn opt_s(x: Option<String>) -> J {
        match x {
            Some(s) => J::Str(s),
            None => J::Null,
        }
    }
    pub fn write(&self, out: &mut String) {
        match self {
            J::Null => out.push_str("null"),
            J::Bool(b) => out.push_str(if *b { "true" } else { "false" }),
            J::Int(i) => out.push_str(&i.to_string()),
            J::Str(s) => esc(s, out),
            J::Arr(v) => {
                out.push('[');
                for (i, x) in v.iter().enumerate() {
                    if i > 0 {
                        out.push(',');
                    }
                    x.write(out);
                }
                out.push(']');
            }
            J::Obj(v) => {
                out.push('{');
                let mut first = true;
                for (k, x) in v.iter() {
                    if let J::Null = x {
                        continue;
                    }
                    if !first {
                        out.push(',');
                    }
                    first = false;
                    esc(k, out);
                    out.push(':');
                    x.write(out);
                }
                out.push('}');
            }
        }
    }
}

fn esc(s: &str, out: &mut String) {
    out.push('"');
    for c in s.chars() {
        match c {
            '"' => out.push_str("\\\""),
            '\\' => out.push_str("\\\\"),
            '\n' => out.push_str("\\n"),
            '\r' => out.push_str("\\r"),
            '\t' => out.push_str("\\t"),
            c if (c as u32) < 0x20 => out.push_str(&format!("\\u{:04x}", c as u32)),
            c => out.push(c),
        }
    }
    out.push('"');
}
